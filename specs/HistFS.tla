------------------------------ MODULE HistFS ------------------------------
(* C13: a crash or I/O failure while saving history never damages what was already saved.

   Every history-rewriting operation (flush, delete, erasedups, GC unlock; SQLite statements in a
   transaction) is a sequence of file-system steps on history files (targets) and temporary files.
   file[f] is what is on disk under the *history* name f: "old" (complete previous version), "new"
   (complete new version), "torn" (truncated / half written / neither), "absent".
   tmp[t] is the state of a temporary file: "none", "open" (being written), "closed" (complete).
   A Crash or a failing call may happen between any two steps and inside any write.
   The SQLite back end is one more "file": statements of a transaction are invisible until Commit. *)
EXTENDS Naturals, Sequences, FiniteSets, TLC

CONSTANTS Files, Tmps, Deviations

DevNames == {"Dev_InPlaceRewrite", "Dev_ReplaceBeforeClose", "Dev_NoTransaction"}

VARIABLES file, tmp, txn, act, res
vars == <<file, tmp, txn, act, res>>
view == <<file, tmp, txn>>

Lab(cmd, f, t) == [cmd |-> cmd, f |-> f, t |-> t]
NoRes == [dev |-> ""]

\* ---------------------------- the protocol: temp file, then rename ------------------------
MkTmp(t) == /\ tmp[t] = "none" /\ tmp' = [tmp EXCEPT ![t] = "open"]
            /\ act' = Lab("mkstemp", "", t) /\ res' = NoRes /\ UNCHANGED <<file, txn>>
WriteTmp(t) == /\ tmp[t] = "open"
               /\ act' = Lab("write", "", t) /\ res' = NoRes /\ UNCHANGED <<file, tmp, txn>>
CloseTmp(t) == /\ tmp[t] \in {"open", "broken"}
               /\ tmp' = [tmp EXCEPT ![t] = IF @ = "open" THEN "closed" ELSE "broken"]
               /\ act' = Lab("close", "", t) /\ res' = NoRes /\ UNCHANGED <<file, txn>>
\* a failed write / close leaves an incomplete temp file behind (it must never be renamed)
FailTmp(t) == /\ tmp[t] = "open" /\ tmp' = [tmp EXCEPT ![t] = "broken"]
              /\ act' = Lab("failtmp", "", t) /\ res' = NoRes /\ UNCHANGED <<file, txn>>
Replace(t, f) ==
  /\ act' = Lab("replace", f, t) /\ UNCHANGED txn
  /\ \/ /\ tmp[t] = "closed"
        /\ file' = [file EXCEPT ![f] = "new"] /\ tmp' = [tmp EXCEPT ![t] = "none"] /\ res' = NoRes
     \/ \* renaming a temp file that is still open or incomplete: the history file is torn until
        \* (and unless) the remaining data reaches the disk
        /\ "Dev_ReplaceBeforeClose" \in Deviations /\ tmp[t] \in {"open", "broken"}
        /\ file' = [file EXCEPT ![f] = "torn"] /\ tmp' = [tmp EXCEPT ![t] = "none"]
        /\ res' = [dev |-> "Dev_ReplaceBeforeClose"]
UnlinkTmp(t) == /\ tmp[t] # "none" /\ tmp' = [tmp EXCEPT ![t] = "none"]
                /\ act' = Lab("unlink", "", t) /\ res' = NoRes /\ UNCHANGED <<file, txn>>
\* garbage collection removes a whole (old) file: atomic
RemoveFile(f) == /\ file[f] \in {"old", "new"} /\ file' = [file EXCEPT ![f] = "absent"]
                 /\ act' = Lab("remove", f, "") /\ res' = NoRes /\ UNCHANGED <<tmp, txn>>

\* ---------------------------- the forbidden way: rewriting in place --------------------------
OpenTrunc(f) == /\ "Dev_InPlaceRewrite" \in Deviations /\ file[f] \in {"old", "new"}
                /\ file' = [file EXCEPT ![f] = "torn"]
                /\ act' = Lab("opentrunc", f, "") /\ res' = [dev |-> "Dev_InPlaceRewrite"] /\ UNCHANGED <<tmp, txn>>
WriteInPlace(f) == /\ file[f] = "torn"
                   /\ act' = Lab("writeinplace", f, "") /\ res' = NoRes /\ UNCHANGED <<file, tmp, txn>>
\* a failing write while rewriting in place: the file stays damaged for good
FailInPlace(f) == /\ file[f] = "torn" /\ file' = [file EXCEPT ![f] = "broken"]
                  /\ act' = Lab("failinplace", f, "") /\ res' = NoRes /\ UNCHANGED <<tmp, txn>>
CloseInPlace(f) == /\ file[f] \in {"torn", "broken"} /\ file' = [file EXCEPT ![f] = IF @ = "torn" THEN "new" ELSE "broken"]
                   /\ act' = Lab("closeinplace", f, "") /\ res' = NoRes /\ UNCHANGED <<tmp, txn>>

\* ---------------------------- SQLite: statements inside a transaction ----------------------
\* txn: "idle" | "open" (statements so far are invisible) ; the database is the file "db"
SqlStmt == /\ "db" \in Files /\ txn \in {"idle", "open"} /\ file["db"] \in {"old", "new"}
           /\ act' = Lab("sql", "db", "") /\ UNCHANGED tmp
           /\ \/ txn' = "open" /\ UNCHANGED file /\ res' = NoRes
              \/ \* autocommit: every statement is durable at once, the operation is no longer all-or-nothing
                 /\ "Dev_NoTransaction" \in Deviations
                 /\ file' = [file EXCEPT !["db"] = "torn"] /\ txn' = "idle" /\ res' = [dev |-> "Dev_NoTransaction"]
Commit == /\ "db" \in Files /\ txn = "open" /\ txn' = "idle"
          /\ file' = [file EXCEPT !["db"] = "new"]
          /\ act' = Lab("commit", "db", "") /\ res' = NoRes /\ UNCHANGED tmp
\* the last autocommitted statement completes the operation
SqlDone == /\ "db" \in Files /\ file["db"] = "torn" /\ txn = "idle"
           /\ file' = [file EXCEPT !["db"] = "new"]
           /\ act' = Lab("sqldone", "db", "") /\ res' = NoRes /\ UNCHANGED <<tmp, txn>>

\* ---------------------------- crash ---------------------------------------------------------
\* the process is killed: open temp files stay as they are, an open transaction is rolled back
Crash == /\ act' = Lab("crash", "", "") /\ res' = NoRes
         /\ txn' = "idle" /\ UNCHANGED <<file, tmp>>

Init == /\ file = [f \in Files |-> "old"] /\ tmp = [t \in Tmps |-> "none"] /\ txn = "idle"
        /\ act = Lab("init", "", "") /\ res = NoRes

Next == \/ \E t \in Tmps : MkTmp(t) \/ WriteTmp(t) \/ CloseTmp(t) \/ FailTmp(t) \/ UnlinkTmp(t)
        \/ \E t \in Tmps, f \in Files : Replace(t, f)
        \/ \E f \in Files : RemoveFile(f) \/ OpenTrunc(f) \/ WriteInPlace(f) \/ CloseInPlace(f) \/ FailInPlace(f)
        \/ SqlStmt \/ Commit \/ SqlDone \/ Crash

Spec == Init /\ [][Next]_vars

\* ---------------------------- the property -----------------------------------------------
\* at every instant - hence after a kill at any instant - every history file is a complete
\* previous or a complete new version (or was removed as a whole)
Atomic == \A f \in Files : file[f] \in {"old", "new", "absent"}
=============================================================================
