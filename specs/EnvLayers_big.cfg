SPECIFICATION Spec
CONSTANTS
  Threads = {"main", "w"}
  MaxDepth = 3
  Keys = {"VG", "VD", "VU"}
  MaxLevel = 40
  Deviations = {}
VIEW view
CONSTRAINT Bounded
INVARIANT MaskConsistent
INVARIANT NoResidue
PROPERTY DetypeIsView
PROPERTY ThreadLocal
PROPERTY ExitRestores
CHECK_DEADLOCK FALSE
