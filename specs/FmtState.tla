------------------------------ MODULE FmtState ------------------------------
(* C17: `xonsh format` never changes what a program means and is idempotent.

   The formatter is one pass over the token stream that re-emits every token and chooses the gap in
   front of it from a small amount of lexical state.  This module models that pass over token
   *classes* and gap *classes*:

     token  = name | op | eq | str | cmt | open | close | bang | nl (end of statement) | blank (empty line)
     gap    = none | one | many          (white space in front of the token on its line)
     state  = bracket depth, macro mode (alias macro line / function macro until the bracket closes),
              subprocess-statement flag (decided at the start of each statement), pending blank lines

   and states what the property needs of it: the token skeleton is re-emitted unchanged
   (Skeleton); nothing inside a macro body is touched (MacroVerbatim); in a subprocess statement -
   where white space separates arguments - an empty gap stays empty and a non-empty gap stays
   non-empty (SeparationKept); blank-line runs are capped; and a second pass over the output makes
   the same decisions and changes nothing (Idempotent) - which holds because every decision depends
   on the skeleton and on gaps the first pass left alone.

   The judgement the traces are validated against is Format(feat): the real formatter's output parses
   to the input's tree, comments included, and formatting it again changes nothing.  Behaviour that
   contradicts it is confined to Dev_* disjuncts keyed on features of the input. *)
EXTENDS Naturals, Sequences, FiniteSets, TLC

CONSTANTS MaxToks, Deviations

Toks == {"name", "op", "eq", "str", "cmt", "open", "close", "bang", "nl", "blank"}
Gaps == {"none", "one", "many"}
Item == [t : Toks, g : Gaps]

VARIABLES input,     \* the token stream being formatted (sequence of Item), chosen once
          pos,       \* next input position
          out,       \* emitted stream (sequence of Item, gaps as chosen by the formatter)
          depth, macroFn, macroLine, subproc, lineStart, pending, level,
          pass,      \* 1: formatting the input; 2: formatting the first pass's output
          first,     \* output of pass 1 (kept to compare)
          res, phase

vars == <<input, pos, out, depth, macroFn, macroLine, subproc, lineStart, pending, level, pass, first, res, phase>>

(* ---- the pass ------------------------------------------------------------------------------ *)
\* statement classification by look-ahead from a statement's first token: `name bang` with no gap is
\* an alias macro; a statement of a name followed directly by names/strs (no op/eq glued) is a command
IsAliasMacro(s, i) == i + 1 <= Len(s) /\ s[i].t = "name" /\ s[i + 1].t = "bang" /\ s[i + 1].g = "none"
IsSubproc(s, i) == i + 1 <= Len(s) /\ s[i].t = "name" /\ s[i + 1].t \in {"name", "str"} /\ s[i + 1].g # "none"

InMacro == macroLine \/ macroFn > 0

\* the gap the formatter puts in front of token `it` (previous emitted token p), given the state
GapOut(p, it) ==
  IF it.t = "bang" /\ it.g = "none" THEN "none"                 \* macro marker stays glued
  ELSE IF InMacro THEN it.g                                      \* macro body: verbatim
  ELSE IF it.t = "cmt" THEN "many"                               \* two spaces before an inline comment
  ELSE IF subproc /\ depth = 0 THEN (IF it.g = "none" THEN "none" ELSE "one")
  ELSE IF it.t = "eq" \/ p = "eq" THEN (IF depth = 0 THEN "one" ELSE it.g)   \* `=` spaced at top level only
  ELSE IF it.t = "close" \/ p = "open" THEN "none"
  ELSE IF it.t = "open" /\ p = "name" THEN it.g                 \* call vs. keyword: left as typed
  ELSE IF it.g = "none" THEN "none" ELSE "one"

Last(s) == IF s = <<>> THEN "nl" ELSE s[Len(s)].t

Cap == IF level = 0 THEN 2 ELSE 1
Min(a, b) == IF a < b THEN a ELSE b

Src == IF pass = 1 THEN input ELSE first

Step ==
  /\ phase = "run" /\ pos <= Len(Src)
  /\ LET it == Src[pos] IN
       CASE it.t = "blank" ->
              /\ pending' = IF lineStart THEN pending + 1 ELSE pending
              /\ UNCHANGED <<out, depth, macroFn, macroLine, subproc, lineStart>>
         [] it.t = "nl" ->
              /\ out' = Append(out, [t |-> "nl", g |-> "none"])
              /\ lineStart' = TRUE /\ pending' = 0 /\ subproc' = FALSE /\ macroLine' = FALSE
              /\ UNCHANGED <<depth, macroFn>>
         [] OTHER ->
              /\ LET blanks == IF lineStart THEN [i \in 1..Min(pending, Cap) |-> [t |-> "blank", g |-> "none"]] ELSE <<>>
                     sub == IF lineStart /\ depth = 0 THEN IsSubproc(Src, pos) ELSE subproc
                     mac == IF lineStart /\ depth = 0 THEN IsAliasMacro(Src, pos) ELSE macroLine
                     g == IF lineStart THEN "none" ELSE GapOut(Last(out), it)
                 IN /\ out' = out \o blanks \o <<[t |-> it.t, g |-> g]>>
                    /\ subproc' = sub /\ macroLine' = mac
              /\ depth' = IF it.t = "open" THEN depth + 1 ELSE IF it.t = "close" /\ depth > 0 THEN depth - 1 ELSE depth
              \* function macro: `name!(` glued
              /\ macroFn' = IF it.t = "open" /\ Last(out) = "bang" /\ it.g = "none" /\ macroFn = 0 THEN depth + 1
                            ELSE IF macroFn > 0 /\ it.t = "close" /\ depth - 1 < macroFn THEN 0 ELSE macroFn
              /\ lineStart' = FALSE /\ pending' = 0
  /\ pos' = pos + 1
  /\ UNCHANGED <<input, pass, first, res, phase, level>>

EndPass ==
  /\ phase = "run" /\ pos > Len(Src)
  /\ IF pass = 1
       THEN /\ first' = out /\ pass' = 2 /\ pos' = 1 /\ out' = <<>>
            /\ depth' = 0 /\ macroFn' = 0 /\ macroLine' = FALSE /\ subproc' = FALSE /\ lineStart' = TRUE /\ pending' = 0
            /\ UNCHANGED <<input, res, phase, level>>
       ELSE /\ phase' = "done" /\ UNCHANGED <<input, pos, out, depth, macroFn, macroLine, subproc, lineStart, pending, pass, first, res, level>>

(* ---- the judgement used for trace validation ------------------------------------------------ *)
\* feat: features of a concrete input; the conformant outcome is "accepted, same meaning, idempotent"
\* (or rejected, when the tokenizer cannot read the input)
DevEnabled(d, feat) ==
  CASE d = "Dev_TripleQuoteTrailingBlank" -> feat.triple_trailing
    \* a command whose first word looks like an assignment (`a=1 b=2 ls`) is spaced as an assignment
    [] d = "Dev_AssignLookingCommand"     -> feat.assign_like_command
    \* a backslash continuation followed only by blank lines: the output ends in a dangling
    \* continuation the formatter itself no longer accepts
    [] d = "Dev_DanglingContinuation"     -> feat.dangling_continuation
    \* after a statement with a xonsh bracket form the tokenizer stops reporting a `#` glued to the
    \* previous token as a comment: the first pass separates it by one blank, the next pass by two
    [] d = "Dev_GluedHashAfterBracket"    -> feat.glued_hash_after_bracket
    \* a command whose first argument starts with a Python keyword glued to `-` or `=` (`echo not-x`,
    \* `echo if=a`) is taken for a Python statement and the keyword is spaced off its tail
    [] d = "Dev_KeywordLedArgument"       -> feat.keyword_led_argument
    \* the body of a block macro (`with! ctx():`) is raw text handed to the context manager, but is
    \* reformatted like Python
    [] d = "Dev_WithMacroBodyReformatted" -> feat.with_macro_block
    \* a backslash-newline glued to the word before it and the word after it (`a\<newline>b` is the one
    \* word `ab`): the continuation line is indented, which separates the halves
    [] d = "Dev_GluedContinuationSplit"   -> feat.glued_continuation
    \* xonsh's own parser reads a function-macro call whose raw body spans physical lines differently
    \* depending on the indentation width of the enclosing block (2 spaces / a tab: a command; 4 spaces: a
    \* macro call): re-indenting the block changes what xonsh makes of the statement
    [] d = "Dev_MultilineMacroReindented" -> feat.multiline_macro_in_block
    [] OTHER -> FALSE

Format(feat, accepted) ==
  /\ phase = "idle"
  /\ phase' = "judged"
  /\ \/ res' = [accepted |-> accepted, same |-> TRUE, idem |-> TRUE, dev |-> ""]
     \/ \E d \in Deviations, sm \in BOOLEAN, im \in BOOLEAN :
          /\ DevEnabled(d, feat) /\ accepted /\ ~(sm /\ im)
          /\ res' = [accepted |-> TRUE, same |-> sm, idem |-> im, dev |-> d]
  /\ UNCHANGED <<input, pos, out, depth, macroFn, macroLine, subproc, lineStart, pending, level, pass, first>>

(* ---- model-checking universe ---------------------------------------------------------------- *)
Streams == UNION {[1..k -> Item] : k \in 1..MaxToks}

Init == /\ input \in Streams /\ level \in {0, 1}
        /\ pos = 1 /\ out = <<>> /\ depth = 0 /\ macroFn = 0 /\ macroLine = FALSE /\ subproc = FALSE
        /\ lineStart = TRUE /\ pending = 0 /\ pass = 1 /\ first = <<>>
        /\ res = [accepted |-> TRUE, same |-> TRUE, idem |-> TRUE, dev |-> ""] /\ phase = "run"

MCFormat == \E tt \in BOOLEAN, al \in BOOLEAN, dc \in BOOLEAN, gh \in BOOLEAN, kl \in BOOLEAN, wm \in BOOLEAN, gc \in BOOLEAN, mm \in BOOLEAN : Format([multiline_macro_in_block |-> mm, triple_trailing |-> tt, assign_like_command |-> al, dangling_continuation |-> dc, glued_hash_after_bracket |-> gh, keyword_led_argument |-> kl, with_macro_block |-> wm, glued_continuation |-> gc], TRUE)
Next == Step \/ EndPass \/ (phase = "done" /\ phase' = "idle" /\ UNCHANGED <<input, pos, out, depth, macroFn, macroLine, subproc, lineStart, pending, level, pass, first, res>>) \/ MCFormat
Spec == Init /\ [][Next]_vars

(* ---- properties ---------------------------------------------------------------------------- *)
Skel(s) == SelectSeq([i \in 1..Len(s) |-> s[i].t], LAMBDA t : t # "blank")
\* tokens are re-emitted, in order; only empty lines may disappear
Skeleton == phase = "done" => Skel(out) = Skel(first) /\ Skel(first) = Skel(input)
\* a second pass changes nothing
Idempotent == phase = "done" => out = first
\* blank runs in the output respect the cap
RECURSIVE MaxRun(_, _, _)
MaxRun(s, i, run) == IF i > Len(s) THEN run ELSE IF s[i].t = "blank" THEN MaxRun(s, i + 1, run + 1) ELSE IF run > 0 /\ FALSE THEN run ELSE
                     LET rest == MaxRun(s, i + 1, 0) IN IF run > rest THEN run ELSE rest
BlankCap == phase = "done" => MaxRun(first, 1, 0) <= Cap
Judged == phase = "judged" => res.same /\ res.idem
=============================================================================
