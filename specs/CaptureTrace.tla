---------------------------- MODULE CaptureTrace ----------------------------
(* Trace validation for Capture.  One trace = the events recorded at the schedule points of the
   capture path during one real captured command (threaded path, stdout only), in the global order
   of a sequence number taken under the recorder's lock.  The payload is abstracted to byte counters;
   each event is the composition of the Capture actions named next to it:

     pump.put(n)      PumpRead ; PumpPut          n bytes (1..1024) leave the pipe for the queue
                                                  (recorded before the queue sees them)
     pump.closed      PumpEOF                     the pump stops; recorded before `closed` is set
     copier.tell(p,n) CopGet ; CopTell            a chunk of n bytes taken; the lock is held; p = file position
     copier.wrote(p,n) CopSeekEnd ; CopWrite      recorded inside the lock, before the seek back
     copier.procexit  CopProcExit                 the child has exited: the shell's write end is closed next
     copier.drained   CopDone                     closed /\ pump stopped /\ queue empty
     main.read(n)     MainRead                    n bytes delivered to the caller (recorded after the read)

   What is required is what Capture's invariants say at this abstraction: bytes are conserved along
   pipe -> queue -> buffer -> caller (nothing is delivered that was not written to the buffer, nothing
   is written to the buffer that was not put on the queue), the copier's four-step append is never
   interleaved with itself, the file position it saves never moves backwards (a rewound position is
   how duplicated delivery starts), and the copier declares the stream drained only when the pump
   has stopped and every byte put on the queue has been written. *)
EXTENDS Naturals, Integers, Sequences, FiniteSets, TLC, Json, IOUtils, TLCExt

CONSTANTS Deviations

Traces == JsonDeserialize(IOEnv.TRACE_FILE)

VARIABLES tid, l, used,
          put, taken, written, delivered,     \* byte counters along the path
          pumpsOpen, pumpsStopped,            \* pumps seen / stopped
          inAppend, curPos, curN, lastPos,    \* copier's append in progress, its saved position
          procExited, drained,
          proxyState                          \* alias stage: "running" | "returned" | "closing"

tvars == <<tid, l, used, put, taken, written, delivered, pumpsOpen, pumpsStopped, inAppend, curPos, curN, lastPos, procExited, drained, proxyState>>

TInit == /\ tid \in 1..Len(Traces) /\ l = 1 /\ used = {}
         /\ put = 0 /\ taken = 0 /\ written = 0 /\ delivered = 0 /\ pumpsOpen = {} /\ pumpsStopped = {}
         /\ inAppend = FALSE /\ curPos = 0 /\ curN = 0 /\ lastPos = 0 /\ procExited = FALSE /\ drained = FALSE
         /\ proxyState = "running"

Steps == Traces[tid].steps

Keep(vs) == UNCHANGED vs

TStep ==
  /\ l <= Len(Steps)
  /\ LET e == Steps[l] IN
       CASE e.ev = "pump.before_read" ->
              /\ e.fd \notin pumpsStopped /\ pumpsOpen' = pumpsOpen \cup {e.fd}
              /\ Keep(<<put, taken, written, delivered, pumpsStopped, inAppend, curPos, curN, lastPos, procExited, drained, proxyState>>)
         [] e.ev = "pump.put" ->
              /\ e.fd \in pumpsOpen /\ e.fd \notin pumpsStopped /\ e.n >= 1 /\ e.n <= 1024
              /\ put' = put + e.n
              /\ Keep(<<taken, written, delivered, pumpsOpen, pumpsStopped, inAppend, curPos, curN, lastPos, procExited, drained, proxyState>>)
         [] e.ev = "pump.closed" ->
              /\ e.fd \in pumpsOpen /\ e.fd \notin pumpsStopped /\ pumpsStopped' = pumpsStopped \cup {e.fd}
              \* a callable-alias stage: the pump can only see end of file once the alias has returned and the
              \* proxy thread has started to close its write ends (recorded before the close)
              /\ (Traces[tid].alias => proxyState = "closing")
              /\ Keep(<<put, taken, written, delivered, pumpsOpen, inAppend, curPos, curN, lastPos, procExited, drained, proxyState>>)
         [] e.ev = "copier.tell" ->
              /\ ~inAppend /\ e.n >= 1 /\ taken + e.n <= put            \* only what the pump put can be taken
              /\ e.pos >= lastPos                                       \* the saved file position never moves backwards
              /\ e.pos <= written                                       \* and lies inside the buffer
              /\ inAppend' = TRUE /\ curPos' = e.pos /\ curN' = e.n /\ taken' = taken + e.n /\ lastPos' = e.pos
              /\ Keep(<<put, written, delivered, pumpsOpen, pumpsStopped, procExited, drained, proxyState>>)
         [] e.ev = "copier.wrote" ->
              /\ inAppend /\ e.pos = curPos /\ e.n = curN
              /\ written' = written + e.n /\ inAppend' = FALSE
              /\ Keep(<<put, taken, delivered, pumpsOpen, pumpsStopped, curPos, curN, lastPos, procExited, drained, proxyState>>)
         [] e.ev = "copier.procexit" ->
              /\ ~procExited /\ ~inAppend /\ procExited' = TRUE
              /\ Keep(<<put, taken, written, delivered, pumpsOpen, pumpsStopped, inAppend, curPos, curN, lastPos, drained, proxyState>>)
         [] e.ev = "copier.drained" ->
              /\ procExited /\ ~inAppend /\ written = put /\ taken = put /\ drained' = TRUE
              /\ Keep(<<put, taken, written, delivered, pumpsOpen, pumpsStopped, inAppend, curPos, curN, lastPos, procExited, proxyState>>)
         [] e.ev = "main.read" ->
              \* conformant: nothing is delivered that is not in the buffer
              /\ \/ (IF Traces[tid].alias THEN delivered + e.n <= put ELSE delivered + e.n <= written) /\ used' = used
                 \/ /\ "Dev_UnlockedRead" \in Deviations /\ ~Traces[tid].alias /\ delivered + e.n > written
                    /\ used' = used \cup {"Dev_UnlockedRead"}
              /\ delivered' = delivered + e.n
              /\ Keep(<<put, taken, written, pumpsOpen, pumpsStopped, inAppend, curPos, curN, lastPos, procExited, drained, proxyState>>)
         \* the order in which the real "fully read?" reads its flags (instrumented reader, see the driver):
         \* read number k must be Capture!CodeOrder[k]; a false flag ends the reads; the answer is "yes" only
         \* after all three were read
         [] e.ev = "proxy.returned" ->
              /\ proxyState = "running" /\ proxyState' = "returned"
              /\ Keep(<<put, taken, written, delivered, pumpsOpen, pumpsStopped, inAppend, curPos, curN, lastPos, procExited, drained>>)
         [] e.ev = "proxy.before_close" ->
              /\ proxyState = "returned" /\ proxyState' = "closing"
              /\ Keep(<<put, taken, written, delivered, pumpsOpen, pumpsStopped, inAppend, curPos, curN, lastPos, procExited, drained>>)
         [] e.ev = "fr.read" ->
              /\ put < 3 /\ e.flag = <<"closed", "thread", "empty">>[put + 1] /\ put' = put + 1
              /\ Keep(<<taken, written, delivered, pumpsOpen, pumpsStopped, inAppend, curPos, curN, lastPos, procExited, drained, proxyState>>)
         [] e.ev = "fr.answer" ->
              /\ (e.flag = "yes" => put = 3)
              /\ Keep(<<put, taken, written, delivered, pumpsOpen, pumpsStopped, inAppend, curPos, curN, lastPos, procExited, drained, proxyState>>)
         [] OTHER -> Keep(<<put, taken, written, delivered, pumpsOpen, pumpsStopped, inAppend, curPos, curN, lastPos, procExited, drained, proxyState>>)
  /\ (Steps[l].ev # "main.read" => used' = used)
  /\ l' = l + 1 /\ tid' = tid

TSpec == TInit /\ [][TStep]_tvars

Report == /\ PrintT(<<"P", tid, l>>)
          /\ (l > Len(Steps) => PrintT(<<"D", tid, ToJson(used)>>))
=============================================================================
