SPECIFICATION Spec
CONSTANTS
  MaxVer = 2
  Deviations = {}
VIEW view
PROPERTY ChildSeesCurrent
PROPERTY RoundTrip
CHECK_DEADLOCK FALSE
