SPECIFICATION Spec
CONSTANTS
  Threads = {"main", "w"}
  MaxDepth = 1
  Keys = {"VG", "VD"}
  MaxLevel = 6
  Deviations = {}
VIEW view
CONSTRAINT Bounded
INVARIANT MaskConsistent
INVARIANT NoResidue
PROPERTY DetypeIsView
PROPERTY ThreadLocal
PROPERTY ExitRestores
CHECK_DEADLOCK FALSE
