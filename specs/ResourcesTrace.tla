--------------------------- MODULE ResourcesTrace ---------------------------
(* Trace validation for Resources: each trace is one pipeline shape with an injected fault, run
   several times in a real session, with whether every snapshot of the process state after the runs
   equals the one before (descriptors, threads, children, directory, sys.std*, handlers, environment,
   Ctrl-C still interrupting). *)
EXTENDS Resources, Json, IOUtils, TLCExt

Traces == JsonDeserialize(IOEnv.TRACE_FILE)

VARIABLES tid, l, used
tvars == <<vars, tid, l, used>>

TInit == /\ tid \in 1..Len(Traces) /\ l = 1 /\ used = {} /\ Init

TStep ==
  /\ l <= Len(Traces[tid].steps)
  /\ LET e == Traces[tid].steps[l] f == Traces[tid].feat IN
       /\ f.n \in 1..3 /\ f.fault \in Faults /\ f.at \in 1..f.n
       /\ Judge(f, e.obs.clean)
       /\ used' = IF e.obs.clean THEN used ELSE {d \in Deviations : ObsDevEnabled(d, f)}
  /\ l' = l + 1 /\ tid' = tid /\ UNCHANGED vars

TSpec == TInit /\ [][TStep]_tvars

Report == /\ PrintT(<<"P", tid, l>>)
          /\ (l > Len(Traces[tid].steps) => PrintT(<<"D", tid, ToJson(used)>>))
=============================================================================
