----------------------------- MODULE DirStack -----------------------------
(* C16: $PWD, the process directory and the directory stack stay in step.

   State of a shell session that only runs directory commands, over a small tree

        r/            (HOME)
        r/a/  r/a/c/  r/b/        directories (r/a/c and r/b can be removed and re-created)
        r/l -> a      r/k -> a/c  symbolic links
        r/f                       a regular file

   Paths are sequences of components below the scratch root.  `pwd`, `oldpwd` and the
   stack hold *logical* paths (what the shell remembers), `pcwd` is the *physical*
   directory of the process.  One action per command invocation (the linearisation point of a
   sequential shell is the return of the command).

   Conformant actions implement the property; the pinned code's departures are the
   separately named Dev_* outcomes, enabled only when listed in Deviations. *)
EXTENDS Naturals, Sequences, FiniteSets, SequencesExt, TLC

CONSTANTS Deviations,   \* subset of DevNames
          MaxN,         \* largest N used in +N/-N arguments
          Sizes,        \* values of $DIRSTACK_SIZE
          MaxStack      \* state constraint of the exhaustive configurations

DevNames == {"Dev_PushdExtract", "Dev_PushdFailMutates", "Dev_PopdFailMutates", "Dev_CdFailAutoPushd"}

VARIABLES fs,      \* set of existing physical directories
          pcwd,    \* physical working directory of the process
          pwd,     \* $PWD (logical)
          oldpwd,  \* $OLDPWD (logical) or Unset
          stack,   \* DIRSTACK, most recent first, without the current directory
          conf,    \* settings: [autoPushd, pushdMinus, size, cdpath]
          act,     \* the command of the last step (for replay)
          res,     \* its observable outcome: [failed, out, dev]
          snap     \* history for the pushd/popd round-trip property

vars == <<fs, pcwd, pwd, oldpwd, stack, conf, act, res, snap>>
view == <<fs, pcwd, pwd, oldpwd, stack, conf, snap>>

Unset == <<".">>   \* $OLDPWD defaults to "." in a fresh session
Home == <<"r">>
File == <<"r", "f">>
AllDirs == { <<>>, <<"r">>, <<"r","a">>, <<"r","a","c">>, <<"r","b">> }
Removable == { <<"r","a","c">>, <<"r","b">> }
Links == { <<"r","l">>, <<"r","k">> }
LinkTarget(p) == IF p = <<"r","l">> THEN <<"r","a">> ELSE <<"r","a","c">>

DropLast(s) == IF s = <<>> THEN <<>> ELSE SubSeq(s, 1, Len(s) - 1)

\* abspath(): purely lexical
LexStep(acc, c) == IF c = ".." THEN DropLast(acc) ELSE Append(acc, c)
LexNorm(p) == FoldLeft(LexStep, <<>>, p)

\* what the kernel does: component by component, following links, ".." is the physical parent
PhysStep(acc, c) == IF c = ".." THEN DropLast(acc)
                    ELSE LET q == Append(acc, c) IN IF q \in Links THEN LinkTarget(q) ELSE q
PhysFrom(base, comps) == FoldLeft(PhysStep, base, comps)
PhysAbs(p) == PhysFrom(<<>>, p)

IsDir(q) == q \in fs
Exists(q) == q \in fs \/ q = File

\* the arguments offered to the commands ------------------------------------------------
AbsPool == { <<"r">>, <<"r","a">>, <<"r","a","c">>, <<"r","b">>, <<"r","l">>, <<"r","l","c">>,
             <<"r","k">>, <<"r","f">>, <<"r","nope">> }
RelPool == { <<"a">>, <<"b">>, <<"c">>, <<"l">>, <<"k">>, <<"..">>, <<"..","b">>, <<"..","c">>,
             <<"nope">>, <<"f">> }
NoPath == <<>>

Arg(kind, path, n) == [kind |-> kind, path |-> path, n |-> n]
PathArgs == { Arg("abs", p, 0) : p \in AbsPool } \cup { Arg("rel", p, 0) : p \in RelPool }
NumArgs(kinds) == { Arg(k, NoPath, n) : k \in kinds, n \in 0..MaxN }

CdArgs == PathArgs \cup NumArgs({"minus"}) \cup { Arg(k, NoPath, 0) : k \in {"none", "dash", "junk", "two"} }
PushdArgs == PathArgs \cup NumArgs({"plus", "minus"}) \cup { Arg(k, NoPath, 0) : k \in {"none", "junk"} }
PopdArgs == NumArgs({"plus", "minus"}) \cup { Arg(k, NoPath, 0) : k \in {"none", "junk"} }
DirsArgs == NumArgs({"plus", "minus"}) \cup { Arg(k, NoPath, 0) : k \in {"show", "clear", "junk"} }

\* relative ".." arguments are only offered where they stay inside the tree
ArgOK(a) == a.kind = "rel" /\ a.path[1] = ".." => (Len(pwd) >= 2 /\ Len(pcwd) >= 2)

\* ------------------------------------------------------------------------------------------
St(c, p, o, s) == [pcwd |-> c, pwd |-> p, oldpwd |-> o, stack |-> s]
Cur == St(pcwd, pwd, oldpwd, stack)

Trunc(s) == IF Len(s) > conf.size THEN SubSeq(s, 1, conf.size) ELSE s
RemoveAt1(s, i) == SubSeq(s, 1, i - 1) \o SubSeq(s, i + 1, Len(s))

\* an outcome: [failed, st, out, dev]
Out(failed, st, out, dev) == [failed |-> failed, st |-> st, out |-> out, dev |-> dev]
Fail == Out(TRUE, Cur, <<>>, "")
Ok(st) == Out(FALSE, st, <<>>, "")

\* _change_working_directory(target) for a logical absolute target
ChdirOK(t) == IsDir(PhysAbs(t))

\* ---------------------------------- cd ---------------------------------------------------
\* the directory string cd settles on: [ok, noop, abs, comps]
CdPick(a) ==
  LET none == [ok |-> FALSE, noop |-> FALSE, abs |-> TRUE, comps |-> <<>>]
      pick(abs, comps) == [ok |-> TRUE, noop |-> FALSE, abs |-> abs, comps |-> comps]
  IN CASE a.kind = "none" -> pick(TRUE, Home)
       [] a.kind = "abs" -> pick(TRUE, a.path)
       [] a.kind = "rel" ->
            IF IsDir(PhysFrom(pcwd, a.path)) THEN pick(FALSE, a.path)
            ELSE \* $CDPATH is consulted only when the argument is not a directory here
                 LET hits == { i \in 1..Len(conf.cdpath) : Exists(PhysFrom(PhysAbs(conf.cdpath[i]), a.path)) }
                 IN IF hits = {} THEN pick(FALSE, a.path)
                    ELSE pick(TRUE, conf.cdpath[CHOOSE i \in hits : \A j \in hits : i <= j] \o a.path)
       [] a.kind = "dash" -> IF oldpwd = Unset THEN pick(FALSE, <<>>) ELSE pick(TRUE, oldpwd)
       [] a.kind = "minus" ->
            IF a.n = 0 THEN [none EXCEPT !.ok = TRUE, !.noop = TRUE]
            ELSE IF a.n > Len(stack) THEN none ELSE pick(TRUE, stack[a.n])
       [] OTHER -> none      \* junk, two arguments

CdOutcomes(a, follow) ==
  LET d == CdPick(a) IN
  IF ~d.ok THEN {Fail}
  ELSE IF d.noop THEN {Ok(Cur)}
  ELSE LET chk == IF d.abs THEN PhysAbs(d.comps) ELSE PhysFrom(pcwd, d.comps)
           full == IF d.abs THEN d.comps ELSE pwd \o d.comps
           tgt == IF follow THEN PhysAbs(full) ELSE LexNorm(full)
           st1 == IF conf.autoPushd THEN Trunc(<<pwd>> \o stack) ELSE stack
       IN IF ~IsDir(chk) THEN {Fail}
          ELSE IF ChdirOK(tgt) THEN {Ok(St(PhysAbs(tgt), tgt, pwd, st1))}
          ELSE {Fail} \cup
               (IF "Dev_CdFailAutoPushd" \in Deviations /\ st1 # stack
                THEN {Out(TRUE, St(pcwd, pwd, oldpwd, st1), <<>>, "Dev_CdFailAutoPushd")} ELSE {})

\* ---------------------------------- pushd / popd ------------------------------------------
\* +N counts from the left of the list printed by dirs, -N from the right; $PUSHD_MINUS flips
FromLeft(a) == (a.kind = "plus") # conf.pushdMinus
\* index into `stack` (1-based) selected by +N/-N, 0 = the current directory itself
SelIndex(a) == IF FromLeft(a) THEN a.n ELSE Len(stack) - a.n

\* the stack entry at index i becomes the current directory
Rotate(i) == LET L == <<pwd>> \o stack
                 L2 == SubSeq(L, i + 1, Len(L)) \o SubSeq(L, 1, i)
             IN [newpwd |-> L2[1], stack |-> Tail(L2)]
Extract(i) == [newpwd |-> stack[i], stack |-> <<pwd>> \o RemoveAt1(stack, i)]

\* pushd moving to logical target t with the new stack s; popped = the stack with the entry removed
PushdMove(t, s, popped) ==
  IF ChdirOK(t) THEN {Ok(St(PhysAbs(t), t, pwd, Trunc(s)))}
  ELSE {Fail} \cup
       (IF "Dev_PushdFailMutates" \in Deviations /\ Trunc(popped) # stack
        THEN {Out(TRUE, St(pcwd, pwd, oldpwd, Trunc(popped)), <<>>, "Dev_PushdFailMutates")} ELSE {})

PushdOutcomes(a, noCd) ==
  CASE a.kind = "none" ->
         IF stack = <<>> THEN {Fail}
         ELSE IF noCd THEN {Ok(St(pcwd, pwd, oldpwd, Trunc(stack)))}
         ELSE PushdMove(LexNorm(Head(stack)), <<pwd>> \o Tail(stack), <<pwd>> \o Tail(stack))
    [] a.kind \in {"abs", "rel"} ->
         LET chk == IF a.kind = "abs" THEN PhysAbs(a.path) ELSE PhysFrom(pcwd, a.path)
             tgt == LexNorm(IF a.kind = "abs" THEN a.path ELSE pwd \o a.path)
         IN IF ~IsDir(chk) THEN {Fail}
            ELSE IF noCd THEN {Ok(St(pcwd, pwd, oldpwd, Trunc(<<tgt>> \o stack)))}
            ELSE PushdMove(tgt, <<pwd>> \o stack, <<pwd>> \o stack)
    [] a.kind \in {"plus", "minus"} ->
         IF a.n > Len(stack) THEN {Fail}
         ELSE LET i == SelIndex(a) IN
              IF i = 0 THEN {Ok(St(pcwd, pwd, oldpwd, Trunc(stack)))}
              ELSE LET rot == Rotate(i)  ext == Extract(i) IN
                   PushdMove(LexNorm(rot.newpwd), rot.stack, ext.stack)
                   \cup (IF "Dev_PushdExtract" \in Deviations /\ ext.stack # rot.stack /\ ChdirOK(LexNorm(ext.newpwd))
                         THEN {Out(FALSE, St(PhysAbs(LexNorm(ext.newpwd)), LexNorm(ext.newpwd), pwd, Trunc(ext.stack)),
                                   <<>>, "Dev_PushdExtract")}
                         ELSE {})
    [] OTHER -> {Fail}

PopdMove(t, s) ==
  IF ChdirOK(t) THEN {Ok(St(PhysAbs(t), t, pwd, s))}
  ELSE {Fail} \cup
       (IF "Dev_PopdFailMutates" \in Deviations
        THEN {Out(TRUE, St(pcwd, pwd, oldpwd, s), <<>>, "Dev_PopdFailMutates")} ELSE {})

PopdOutcomes(a, noCd) ==
  CASE a.kind = "none" ->
         IF stack = <<>> THEN {Fail}
         ELSE IF noCd THEN {Ok(St(pcwd, pwd, oldpwd, Tail(stack)))}
         ELSE PopdMove(LexNorm(Head(stack)), Tail(stack))
    [] a.kind \in {"plus", "minus"} ->
         IF stack = <<>> \/ a.n > Len(stack) THEN {Fail}
         ELSE LET i == SelIndex(a) IN
              IF i = 0 THEN (IF noCd THEN {Ok(St(pcwd, pwd, oldpwd, Tail(stack)))}
                             ELSE PopdMove(LexNorm(Head(stack)), Tail(stack)))
              ELSE {Ok(St(pcwd, pwd, oldpwd, RemoveAt1(stack, i)))}
    [] OTHER -> {Fail}

\* ---------------------------------- dirs --------------------------------------------------
DirsOutcomes(a) ==
  LET o == <<pwd>> \o stack IN
  CASE a.kind = "show" -> {Out(FALSE, Cur, o, "")}
    [] a.kind = "clear" -> {Ok(St(pcwd, pwd, oldpwd, <<>>))}
    [] a.kind \in {"plus", "minus"} ->
         IF a.n >= Len(o) THEN {Fail}
         ELSE {Out(FALSE, Cur, << o[IF FromLeft(a) THEN a.n + 1 ELSE Len(o) - a.n] >>, "")}
    [] OTHER -> {Fail}

\* ---------------------------------- actions ----------------------------------------------
Confs == [autoPushd : BOOLEAN, pushdMinus : BOOLEAN, size : Sizes,
          cdpath : { <<>>, << <<"r","a">> >> }]
NoSnap == <<"none", St(<<>>, <<>>, <<>>, <<>>)>>
Take(cmd, a, flag, o) ==
  /\ pcwd' = o.st.pcwd /\ pwd' = o.st.pwd /\ oldpwd' = o.st.oldpwd /\ stack' = o.st.stack
  /\ act' = [cmd |-> cmd, arg |-> a, flag |-> flag]
  /\ res' = [failed |-> o.failed, out |-> o.out, dev |-> o.dev]
  /\ snap' = IF cmd = "pushd" /\ a.kind \in {"abs", "rel"} /\ ~flag /\ ~o.failed /\ Len(stack) < conf.size
             THEN <<"pushed", Cur>>
             ELSE IF cmd = "popd" /\ a.kind = "none" /\ ~flag /\ ~o.failed /\ snap[1] = "pushed"
             THEN <<"popped", snap[2]>>
             ELSE NoSnap
  /\ UNCHANGED <<fs, conf>>

Cd(a, follow) == ArgOK(a) /\ (follow => a.kind \in {"abs", "rel"})
                 /\ \E o \in CdOutcomes(a, follow) : Take("cd", a, follow, o)
Pushd(a, noCd) == ArgOK(a) /\ (noCd => a.kind \in {"abs", "none"})
                  /\ \E o \in PushdOutcomes(a, noCd) : Take("pushd", a, noCd, o)
Popd(a, noCd) == \E o \in PopdOutcomes(a, noCd) : Take("popd", a, noCd, o)
Dirs(a) == \E o \in DirsOutcomes(a) : Take("dirs", a, FALSE, o)

NoRes == [failed |-> FALSE, out |-> <<>>, dev |-> ""]
Rmdir(d) == /\ d \in Removable \cap fs /\ d # pcwd
            /\ fs' = fs \ {d}
            /\ act' = [cmd |-> "rmdir", arg |-> Arg("abs", d, 0), flag |-> FALSE] /\ res' = NoRes /\ snap' = NoSnap
            /\ UNCHANGED <<pcwd, pwd, oldpwd, stack, conf>>
Mkdir(d) == /\ d \in Removable \ fs
            /\ fs' = fs \cup {d}
            /\ act' = [cmd |-> "mkdir", arg |-> Arg("abs", d, 0), flag |-> FALSE] /\ res' = NoRes /\ snap' = NoSnap
            /\ UNCHANGED <<pcwd, pwd, oldpwd, stack, conf>>

\* something else (a library call) changes the process directory; the prompt-time
\* resynchronisation (BaseShell._fix_cwd) runs before the next command
ExternalChdirFix(d) ==
  /\ d \in fs /\ d # <<>>
  /\ pcwd' = d
  /\ IF PhysAbs(pwd) # d THEN pwd' = d /\ oldpwd' = pwd ELSE UNCHANGED <<pwd, oldpwd>>
  /\ act' = [cmd |-> "extchdir", arg |-> Arg("abs", d, 0), flag |-> FALSE] /\ res' = NoRes /\ snap' = NoSnap
  /\ UNCHANGED <<fs, stack, conf>>

\* the prompt-time resynchronisation alone (runs after every command of an interactive shell)
FixCwd ==
  /\ IF PhysAbs(pwd) # pcwd THEN pwd' = pcwd /\ oldpwd' = pwd ELSE UNCHANGED <<pwd, oldpwd>>
  /\ act' = [cmd |-> "fixcwd", arg |-> Arg("none", NoPath, 0), flag |-> FALSE] /\ res' = NoRes /\ snap' = snap
  /\ UNCHANGED <<fs, pcwd, stack, conf>>

\* a setting is changed in mid-session ($DIRSTACK_SIZE, $AUTO_PUSHD, $PUSHD_MINUS, $CDPATH)
Configure(c) ==
  /\ c \in Confs /\ c # conf
  /\ conf' = c
  /\ act' = [cmd |-> "setconf", arg |-> Arg("none", NoPath, 0), flag |-> FALSE] /\ res' = NoRes /\ snap' = NoSnap
  /\ UNCHANGED <<fs, pcwd, pwd, oldpwd, stack>>

\* `with p'...'.cd(): pass` - the path-literal context manager, entered and left
WithCd(d) ==
  /\ d \in fs /\ d # <<>>
  /\ act' = [cmd |-> "withcd", arg |-> Arg("abs", d, 0), flag |-> FALSE] /\ res' = NoRes /\ snap' = NoSnap
  /\ UNCHANGED <<fs, pcwd, pwd, oldpwd, stack, conf>>


Init == /\ fs = AllDirs /\ pcwd = Home /\ pwd = Home /\ oldpwd = Unset /\ stack = <<>>
        /\ conf \in Confs
        /\ act = [cmd |-> "init", arg |-> Arg("none", NoPath, 0), flag |-> FALSE] /\ res = NoRes /\ snap = NoSnap

Next == \/ \E a \in CdArgs, f \in BOOLEAN : Cd(a, f)
        \/ \E a \in PushdArgs, n \in BOOLEAN : Pushd(a, n)
        \/ \E a \in PopdArgs, n \in BOOLEAN : Popd(a, n)
        \/ \E a \in DirsArgs : Dirs(a)
        \/ \E d \in Removable : Rmdir(d) \/ Mkdir(d)
        \/ \E d \in AllDirs : ExternalChdirFix(d) \/ WithCd(d)
        \/ FixCwd
        \/ \E c \in Confs : Configure(c)

Spec == Init /\ [][Next]_vars

\* ---------------------------------- the property -----------------------------------------
TypeOK == /\ fs \subseteq AllDirs /\ pcwd \in AllDirs /\ conf \in Confs
          /\ res.failed \in BOOLEAN

\* $PWD names the process's actual working directory
PwdNamesCwd == PhysAbs(pwd) = pcwd

IsDirCmd == act.cmd \in {"cd", "pushd", "popd", "dirs"}

\* a failed operation changes nothing (and `failed` is what "reports an error" means)
FailChangesNothing ==
  [][ (IsDirCmd' /\ res'.failed) => UNCHANGED <<pcwd, pwd, oldpwd, stack>> ]_vars

\* $OLDPWD is the previous $PWD whenever a command moved
OldpwdIsPrevious ==
  [][ (IsDirCmd' /\ pwd' # pwd) => oldpwd' = pwd ]_vars

\* at most $DIRSTACK_SIZE entries after every pushd
StackBounded == [][ (act'.cmd = "pushd" /\ ~res'.failed) => Len(stack') <= conf.size ]_vars

\* documented rotation: pushd +N/-N permutes the list [cwd] + stack cyclically
IsRotation(L1, L2) == \E k \in 0..Len(L1) : L2 = SubSeq(L1, k + 1, Len(L1)) \o SubSeq(L1, 1, k)
PushdRotates ==
  [][ (act'.cmd = "pushd" /\ act'.arg.kind \in {"plus", "minus"} /\ ~res'.failed /\ Len(stack) <= conf.size)
        => IsRotation(<<pwd>> \o stack, <<pwd'>> \o stack') ]_vars

\* popd removes exactly one entry and keeps the order of the others
PopdRemovesOne ==
  [][ (act'.cmd = "popd" /\ ~res'.failed) =>
        \E i \in 1..(Len(stack) + 1) : <<pwd'>> \o stack' = RemoveAt1(<<pwd>> \o stack, i) ]_vars

\* pushd d ; popd   restores both the directory and the stack (two-step property through the
\* history variable `snap`; only claimed when the pushd did not overflow $DIRSTACK_SIZE)
PushdPopdRestores ==
  snap[1] = "popped" => (snap[2].pcwd = pcwd /\ snap[2].pwd = pwd /\ snap[2].stack = stack)

\* state constraint of the exhaustive configuration
Bounded == Len(stack) <= MaxStack
=============================================================================
