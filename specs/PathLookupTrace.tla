--------------------------- MODULE PathLookupTrace ---------------------------
(* Trace validation for PathLookup: recorded create/delete/chmod/$PATH-edit/lookup histories on a
   scratch tree; the model's PosixWhich is bound to shutil.which and /bin/sh `command -v` on every
   lookup. *)
EXTENDS PathLookup, Json, IOUtils, TLCExt

Traces == JsonDeserialize(IOEnv.TRACE_FILE)

VARIABLES tid, l, used
tvars == <<vars, tid, l, used>>

TInit == /\ tid \in 1..Len(Traces) /\ l = 1 /\ used = {} /\ Init /\ path = Traces[tid].path

TStep ==
  /\ l <= Len(Traces[tid].steps)
  /\ LET e == Traces[tid].steps[l] IN
       /\ \/ e.cmd = "create" /\ Create(e.a, e.b)
          \/ e.cmd = "delete" /\ Delete(e.a)
          \/ e.cmd = "chmod" /\ Chmod(e.a)
          \/ e.cmd = "setpath" /\ SetPath(e.path)
          \/ e.cmd = "relink" /\ Relink
          \/ e.cmd = "locate" /\ Locate
               /\ res'.loc = e.obs.loc /\ res'.loc = e.obs.which /\ res'.loc = e.obs.sh /\ res'.loc = e.obs.spawn
          \/ e.cmd = "query" /\ CacheQuery
               /\ res'.cached = e.obs.cached /\ res'.inn = e.obs.inn /\ res'.listing = e.obs.listing
       /\ used' = IF res'.dev = "" THEN used ELSE used \cup {res'.dev}
  /\ l' = l + 1 /\ tid' = tid

TSpec == TInit /\ [][TStep]_tvars

Report == /\ PrintT(<<"P", tid, l>>)
          /\ (l > Len(Traces[tid].steps) => PrintT(<<"D", tid, ToJson(used)>>))
=============================================================================
