SPECIFICATION Spec
CONSTANTS
  Names = {"a", "b"}
  Others = {"x", "-f"}
  Decs = {"@d1"}
  MaxBody = 2
  Deviations = {}
VIEW view
INVARIANT DepthBounded
INVARIANT EachOnce
INVARIANT ArgsPreserved
INVARIANT StepwiseIsReference
PROPERTY Terminates
CHECK_DEADLOCK FALSE
