--------------------------- MODULE PyGrammarTrace ---------------------------
(* Trace validation for PyGrammar: each trace is one derivation with what the two parsers did with
   the rendered text. *)
EXTENDS PyGrammar, Json, IOUtils, TLCExt

Traces == JsonDeserialize(IOEnv.TRACE_FILE)

VARIABLES tid, l, used
tvars == <<vars, tid, l, used>>

TInit == /\ tid \in 1..Len(Traces) /\ l = 1 /\ used = {} /\ Init

TStep ==
  /\ l <= Len(Traces[tid].steps)
  /\ LET e == Traces[tid].steps[l] IN
       /\ Judge(Traces[tid].deriv, e.obs.cpy)
       /\ res'.ok = e.obs.ok
       /\ used' = IF res'.dev = "" THEN used ELSE used \cup {res'.dev}
  /\ l' = l + 1 /\ tid' = tid

TSpec == TInit /\ [][TStep]_tvars

Report == /\ PrintT(<<"P", tid, l>>)
          /\ (l > Len(Traces[tid].steps) => PrintT(<<"D", tid, ToJson(used)>>))
=============================================================================
