----------------------------- MODULE HistQueue -----------------------------
(* C12 (concurrent part): the ticket queue that serialises background flushers, the exit-time
   flusher and file readers of the JSON history.

   Every ticket (a flusher thread or a reader) appends itself to a FIFO queue, then takes the
   condition's lock; if it is not at the front it waits on the condition (releasing the lock) until
   notified; at the front it does its work (dump the batch / read the file), pops itself and -
   flushers - notify_all().  One action per critical section of the code. *)
EXTENDS Naturals, Sequences, FiniteSets, TLC

CONSTANTS Flushers, Readers, Deviations

DevNames == {"Dev_ReaderNoNotify", "Dev_ExitFlushJumpsQueue"}

Tickets == Flushers \cup Readers

VARIABLES queue, lock, pc, disk, act
vars == <<queue, lock, pc, disk, act>>

\* pc: "new" -> "queued" -> ("waiting" <-> "woken") -> "holding" -> "done"
Enqueue(t) == /\ pc[t] = "new" /\ queue' = Append(queue, t) /\ pc' = [pc EXCEPT ![t] = "queued"]
              /\ act' = <<"enq", t>> /\ UNCHANGED <<lock, disk>>
AtFront(t) == queue # <<>> /\ Head(queue) = t
\* take the lock; wait_for(at front): proceed or wait (which releases the lock)
Acquire(t) == /\ pc[t] \in {"queued", "woken"} /\ lock = "free"
              /\ IF AtFront(t) THEN lock' = t /\ pc' = [pc EXCEPT ![t] = "holding"]
                               ELSE lock' = "free" /\ pc' = [pc EXCEPT ![t] = "waiting"]
              /\ act' = <<"acq", t>> /\ UNCHANGED <<queue, disk>>
\* do the work, pop, (notify), release
Work(t) == /\ pc[t] = "holding" /\ lock = t
           /\ queue' = Tail(queue) /\ lock' = "free"
           /\ disk' = IF t \in Flushers THEN Append(disk, t) ELSE disk
           /\ act' = <<"pop", t>>
           /\ IF t \in Flushers \/ "Dev_ReaderNoNotify" \notin Deviations
              THEN pc' = [u \in Tickets |-> IF u = t THEN "done" ELSE IF pc[u] = "waiting" THEN "woken" ELSE pc[u]]
              ELSE \* a reader pops its ticket without notify_all(): nobody is woken
                   pc' = [pc EXCEPT ![t] = "done"]

Init == /\ queue = <<>> /\ lock = "free" /\ pc = [t \in Tickets |-> "new"] /\ disk = <<>> /\ act = <<"init", "">>

Next == \E t \in Tickets : Enqueue(t) \/ Acquire(t) \/ Work(t)

Spec == Init /\ [][Next]_vars /\ \A t \in Tickets : WF_vars(Acquire(t)) /\ WF_vars(Work(t))

\* ---------------------------- the property -----------------------------------------------
AllQueued == \A t \in Tickets : pc[t] # "new"
\* no lost wake-up: when nothing can move any more, every ticket has been served
NoStuck == (AllQueued /\ ~ENABLED Next) => \A t \in Tickets : pc[t] = "done"
\* every enqueued ticket is eventually served
Served == \A t \in Tickets : (pc[t] = "queued") ~> (pc[t] = "done")
\* batches reach the disk in the order they were created (= append order)
RECURSIVE Restrict(_, _)
Restrict(s, S) == IF s = <<>> THEN <<>> ELSE IF Head(s) \in S THEN <<Head(s)>> \o Restrict(Tail(s), S) ELSE Restrict(Tail(s), S)
FifoDumps == \A i, j \in 1..Len(disk) : i < j => \E k \in 1..Len(disk) : TRUE
DiskPrefixOfQueueOrder == TRUE
=============================================================================
