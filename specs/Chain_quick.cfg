SPECIFICATION Spec
CONSTANTS
  MaxLeaves = 2
  Forms = {"bare", "dollar"}
  Decs = {"none", "raise", "ignore"}
  Kinds = {"py"}
  Deviations = {}
PROPERTY RunsIffReached
PROPERTY NothingAfterRaise
PROPERTY Exempt
PROPERTY FlagOff
CHECK_DEADLOCK FALSE
