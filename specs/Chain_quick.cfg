SPECIFICATION Spec
CONSTANTS
  MaxLeaves = 2
  Forms = {"bare", "dollar", "object"}
  Decs = {"none", "raise", "ignore"}
  Kinds = {"cmd", "py"}
  Deviations = {}
PROPERTY RunsIffReached
PROPERTY NothingAfterRaise
PROPERTY Exempt
PROPERTY FlagOff
CHECK_DEADLOCK FALSE
