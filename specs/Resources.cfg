SPECIFICATION Spec
CONSTANTS
  MaxStages = 3
  Deviations = {}
INVARIANT LeavesNothing
INVARIANT NoBothEndsAfterStart
INVARIANT OnlyRunningThingsWhileDraining
PROPERTY Terminates
CHECK_DEADLOCK FALSE
