SPECIFICATION Spec
CONSTANTS
  MaxStages = 3
  Deviations = {}
INVARIANT LeavesNothing
INVARIANT NoWriterAfterDrain
INVARIANT OnlyRunningThingsWhileDraining
PROPERTY Terminates
CHECK_DEADLOCK FALSE
