------------------------------ MODULE Resources ------------------------------
(* C09: running a command leaves the shell session as it found it.

   An ownership ledger for one pipeline run.  The shell acquires resources while it builds and
   starts the stages - redirect file handles, the two ends of every connecting pipe, capture pipes,
   helper threads (pump / copier / proxy), child processes, swapped signal handlers - and every one of
   them has to be released on *every* path out of the run: normal completion, a redirect target that
   cannot be opened, a command that is not found at stage i (after earlier stages were started and
   their pipes opened), an alias that raises, a consumer that exits while its producer still writes.

   The steps mirror xonsh/procs/specs.py (cmds_to_specs: build every spec, open redirects, wire the
   pipes), pipelines.CommandPipeline.__init__ (start the stages one by one; on failure close what the
   remaining specs own and the stages already started), iterraw/_end (drain, wait, close), and
   posix/proxies (handlers swapped while a threaded stage runs, restored at the end).  `Fault` is a
   choice point at every step.  Deviations are listed defects of the pinned code: a path on which
   something stays owned. *)
EXTENDS Naturals, Sequences, FiniteSets, TLC

CONSTANTS MaxStages, Deviations

Kinds == {"proc", "alias"}
Faults == {"none", "redirect_unopenable", "not_found", "alias_raises", "consumer_exits_early", "input_missing"}

VARIABLES shape,      \* [n, kinds, redirect (stage with an output redirect or 0), captured, fault, at (stage the fault hits)]
          pc,         \* "idle" | "build" | "wire" | "start" | "drain" | "close" | "done"
          i,          \* stage counter of the current phase
          owned,      \* set of resources the shell holds: <<kind, stage>>
          handlers,   \* "original" | "swapped"
          failed,     \* the run took a failure path
          res
vars == <<shape, pc, i, owned, handlers, failed, res>>

Shapes == UNION {[n : {n}, kinds : [1..n -> Kinds], redirect : 0..n, captured : BOOLEAN, fault : Faults, at : 1..n] : n \in 1..MaxStages}
\* the fault must make sense for the shape
Sensible(s) ==
  /\ (s.fault = "redirect_unopenable" => s.redirect = s.at)
  /\ (s.fault = "alias_raises" => s.kinds[s.at] = "alias")
  /\ (s.fault = "not_found" => s.kinds[s.at] = "proc")
  /\ (s.fault = "consumer_exits_early" => s.n >= 2 /\ s.at = s.n)
  /\ (s.fault = "input_missing" => s.at = 1)
  /\ (s.fault = "none" => s.at = 1)

Init == shape = [n |-> 1, kinds |-> <<"proc">>, redirect |-> 0, captured |-> FALSE, fault |-> "none", at |-> 1]
        /\ pc = "idle" /\ i = 0 /\ owned = {} /\ handlers = "original" /\ failed = FALSE /\ res = [clean |-> TRUE, dev |-> ""]

When(S) == IF pc = "idle" THEN S ELSE {}
Choose == \E s \in When(Shapes) : Sensible(s) /\ shape' = s /\ pc' = "build" /\ i' = 1
                                  /\ UNCHANGED <<owned, handlers, failed, res>>

\* everything the specs built so far own is closed (cmds_to_specs: except BaseException: spec.close())
ReleaseAll == owned' = {}

Build == /\ pc = "build"
         /\ IF i > shape.n THEN pc' = "wire" /\ i' = 1 /\ UNCHANGED <<owned, failed>>
            ELSE IF shape.fault \in {"redirect_unopenable", "input_missing"} /\ shape.at = i
                   THEN \* opening the target raises: the specs built so far are closed, nothing was started
                        /\ failed' = TRUE /\ pc' = "done" /\ i' = i
                        /\ \/ ReleaseAll
                           \/ "Dev_RedirectFailureLeaks" \in Deviations /\ UNCHANGED owned
                   ELSE /\ owned' = owned \cup (IF shape.redirect = i THEN {<<"file", i>>} ELSE {})
                        /\ i' = i + 1 /\ UNCHANGED <<pc, failed>>
         /\ UNCHANGED <<shape, handlers, res>>

Wire == /\ pc = "wire"
        /\ IF i >= shape.n
             THEN /\ pc' = "start" /\ i' = 1
                  /\ owned' = owned \cup (IF shape.captured THEN {<<"capR", shape.n>>, <<"capW", shape.n>>} ELSE {})
             ELSE /\ owned' = owned \cup {<<"pipeR", i>>, <<"pipeW", i>>} /\ i' = i + 1 /\ UNCHANGED pc
        /\ UNCHANGED <<shape, handlers, failed, res>>

\* what stage k hands over to / shares with its child or thread once started: the shell's copies of
\* the write end it writes to and of the read end it reads from are closed by the shell
HandedOver(k) == {<<"pipeW", k>>, <<"pipeR", k - 1>>, <<"file", k>>}

Start == /\ pc = "start"
         /\ IF i > shape.n THEN pc' = "drain" /\ i' = 1 /\ UNCHANGED <<owned, handlers, failed>>
            ELSE IF shape.fault = "not_found" /\ shape.at = i
                   THEN \* stages 1..i-1 are running, the pipes are open: everything must go
                        /\ failed' = TRUE /\ pc' = "done" /\ i' = i /\ UNCHANGED handlers
                        /\ \/ ReleaseAll
                           \/ "Dev_NotFoundLeaksEarlierStages" \in Deviations /\ i > 1 /\ UNCHANGED owned
                   ELSE /\ owned' = (owned \ HandedOver(i))
                                    \cup {<<IF shape.kinds[i] = "proc" THEN "child" ELSE "thread", i>>}
                                    \cup (IF i = shape.n /\ shape.captured THEN {<<"pump", i>>} ELSE {})
                        /\ handlers' = IF i = shape.n THEN "swapped" ELSE handlers
                        /\ i' = i + 1 /\ UNCHANGED <<pc, failed>>
         /\ UNCHANGED <<shape, res>>

\* the stages end (normally, by raising, or because the consumer left); the shell reaps / joins them
Drain == /\ pc = "drain"
         /\ failed' = (shape.fault \in {"alias_raises", "consumer_exits_early"})
         /\ pc' = "close" /\ UNCHANGED <<shape, i, owned, handlers, res>>

Close == /\ pc = "close"
         /\ \/ owned' = {} /\ handlers' = "original"
            \/ /\ "Dev_EarlyExitLeavesProducer" \in Deviations /\ shape.fault = "consumer_exits_early"
               /\ owned' = {r \in owned : r[1] \in {"child", "thread"} /\ r[2] < shape.n} /\ handlers' = "original"
         /\ pc' = "done" /\ UNCHANGED <<shape, i, failed>>
         /\ res' = [clean |-> owned' = {} /\ handlers' = "original", dev |-> IF owned' = {} THEN "" ELSE "Dev_EarlyExitLeavesProducer"]

Next == Choose \/ Build \/ Wire \/ Start \/ Drain \/ Close
Spec == Init /\ [][Next]_vars /\ WF_vars(Next)

(* ---- judgement used by the trace specification -------------------------------------------- *)
\* feat: the real scenario's features; clean: every snapshot after the runs equals the one before
ObsDevEnabled(d, feat) ==
  CASE d = "Dev_NotFoundLeaksEarlierStages" -> feat.fault = "not_found" /\ feat.at >= 2
    [] OTHER -> FALSE
Judge(feat, clean) == clean \/ \E d \in Deviations : ObsDevEnabled(d, feat) /\ ~clean

(* ---- properties ---------------------------------------------------------------------------- *)
Quiescent == pc = "done"
LeavesNothing == Quiescent => owned = {} /\ handlers = "original"
\* the shell never holds both ends of a pipe once both neighbouring stages run
NoBothEndsAfterStart == pc = "drain" => \A k \in 1..shape.n : ~(<<"pipeR", k>> \in owned /\ <<"pipeW", k>> \in owned)
OnlyRunningThingsWhileDraining == pc = "drain" => \A r \in owned : r[1] \in {"child", "thread", "pump", "capR", "capW", "pipeR", "pipeW"}
Terminates == <>(pc = "done")
=============================================================================
