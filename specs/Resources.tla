------------------------------ MODULE Resources ------------------------------
(* C09: running a command leaves the shell session as it found it.

   An ownership ledger for one pipeline run.  The shell acquires resources while it builds and
   starts the stages - redirect file handles, the two ends of every connecting pipe, capture pipes,
   helper threads (pump / copier / proxy), child processes, swapped signal handlers - and every one of
   them has to be released on *every* path out of the run: normal completion, a redirect target that
   cannot be opened, a command that is not found at stage i (after earlier stages were started and
   their pipes opened), an alias that raises, a consumer that exits while its producer still writes.

   The steps mirror xonsh/procs/specs.py (cmds_to_specs: build every spec, open redirects, wire the
   pipes), pipelines.CommandPipeline.__init__ (start the stages one by one; on failure close what the
   remaining specs own and the stages already started), iterraw/_end (drain, wait, close), and
   posix/proxies (handlers swapped while a threaded stage runs, restored at the end).  `Fault` is a
   choice point at every step.  Deviations are listed defects of the pinned code: a path on which
   something stays owned. *)
EXTENDS Naturals, Sequences, FiniteSets, TLC

CONSTANTS MaxStages, Deviations

Kinds == {"proc", "alias", "ualias"}   \* ualias: a callable alias marked unthreadable - runs in the shell's own thread, single stage only
Faults == {"none", "redirect_unopenable", "redirect_conflict", "not_found", "alias_raises", "consumer_exits_early", "input_missing"}

VARIABLES shape,      \* [n, kinds, redirect (stage with an output redirect or 0), captured, bg (trailing &), infile (stage 1 reads `< file`), fault, at (stage the fault hits)]
          pc,         \* "idle" | "build" | "wire" | "start" | "drain" | "close" | "bgrelease" | "bgwait" | "done"
          i,          \* stage counter of the current phase
          owned,      \* set of resources the shell holds: <<kind, stage>>
          handlers,   \* "original" | "swapped"
          failed,     \* the run took a failure path
          res
vars == <<shape, pc, i, owned, handlers, failed, res>>

Shapes == UNION {[n : {n}, kinds : [1..n -> Kinds], redirect : 0..n, captured : BOOLEAN, bg : BOOLEAN, infile : BOOLEAN, fault : Faults, at : 1..n] : n \in 1..MaxStages}
\* the fault must make sense for the shape
Sensible(s) ==
  /\ (s.fault = "redirect_unopenable" => s.redirect = s.at)
  /\ (s.fault = "redirect_conflict" => s.redirect = 0 /\ s.at = s.n)   \* refused while the specs are built
  /\ ((\E k \in 1..s.n : s.kinds[k] = "ualias") => s.n = 1 /\ ~s.bg)
  /\ (s.fault = "alias_raises" => s.kinds[s.at] = "alias")
  /\ (s.fault = "not_found" => s.kinds[s.at] = "proc")
  /\ (s.fault = "consumer_exits_early" => s.n >= 2 /\ s.at = s.n)
  /\ (s.fault = "input_missing" => s.at = 1 /\ s.infile)
  /\ (s.fault = "none" => s.at = 1)
  /\ (s.bg => ~s.captured)            \* `$(cmd &)` is not a shape: a background pipeline is not captured

Init == shape = [n |-> 1, kinds |-> <<"proc">>, redirect |-> 0, captured |-> FALSE, bg |-> FALSE, infile |-> FALSE, fault |-> "none", at |-> 1]
        /\ pc = "idle" /\ i = 0 /\ owned = {} /\ handlers = "original" /\ failed = FALSE /\ res = [clean |-> TRUE, dev |-> ""]

When(S) == IF pc = "idle" THEN S ELSE {}
Choose == \E n \in When(1..MaxStages) : \E kinds \in [1..n -> Kinds], fault \in Faults, at \in 1..n, redirect \in 0..n, captured \in BOOLEAN, bg \in BOOLEAN, infile \in BOOLEAN :
            LET s == [n |-> n, kinds |-> kinds, redirect |-> redirect, captured |-> captured, bg |-> bg, infile |-> infile, fault |-> fault, at |-> at] IN
              Sensible(s) /\ shape' = s /\ pc' = "build" /\ i' = 1 /\ UNCHANGED <<owned, handlers, failed, res>>

\* everything the specs built so far own is closed (cmds_to_specs: except BaseException: spec.close())
ReleaseAll == owned' = {}

Build == /\ pc = "build"
         /\ IF i > shape.n THEN pc' = "wire" /\ i' = 1 /\ UNCHANGED <<owned, failed>>
            ELSE IF shape.fault \in {"redirect_unopenable", "redirect_conflict", "input_missing"} /\ shape.at = i
                   THEN \* opening the target raises: the specs built so far are closed, nothing was started
                        /\ failed' = TRUE /\ pc' = "done" /\ i' = i
                        /\ \/ ReleaseAll
                           \/ "Dev_RedirectFailureLeaks" \in Deviations /\ UNCHANGED owned
                   ELSE /\ owned' = owned \cup (IF shape.redirect = i THEN {<<"file", i>>} ELSE {})
                                          \cup (IF i = 1 /\ shape.infile THEN {<<"infile", 1>>} ELSE {})
                        /\ i' = i + 1 /\ UNCHANGED <<pc, failed>>
         /\ UNCHANGED <<shape, handlers, res>>

Wire == /\ pc = "wire"
        /\ IF i >= shape.n
             THEN /\ pc' = "start" /\ i' = 1
                  /\ owned' = owned \cup (IF shape.captured THEN {<<"capR", shape.n>>, <<"capW", shape.n>>} ELSE {})
             ELSE /\ owned' = owned \cup {<<"pipeR", i>>, <<"pipeW", i>>} /\ i' = i + 1 /\ UNCHANGED pc
        /\ UNCHANGED <<shape, handlers, failed, res>>

\* Starting a stage hands the child (or thread) its descriptors, but the shell keeps its own copies of
\* every pipe end and redirect file until it closes them itself: the write end of connection k when
\* stage k has finished (pipelines._prev_procs_done / PopenThread / ProcProxyThread close_writer - this
\* is what lets stage k+1 see end-of-file), everything else in _close_prev_procs / _close_proc.
Start == /\ pc = "start"
         /\ IF i > shape.n THEN pc' = (IF shape.bg THEN "bgrelease" ELSE "drain") /\ i' = 1 /\ UNCHANGED <<owned, handlers, failed>>
            ELSE IF shape.fault = "not_found" /\ shape.at = i
                   THEN \* stages 1..i-1 are running, the pipes are open: everything must go
                        /\ failed' = TRUE /\ pc' = "done" /\ i' = i /\ UNCHANGED handlers
                        /\ \/ ReleaseAll
                           \/ "Dev_NotFoundLeaksEarlierStages" \in Deviations /\ i > 1 /\ UNCHANGED owned
                   ELSE /\ owned' = owned \cup (IF shape.kinds[i] = "ualias" THEN {} ELSE {<<IF shape.kinds[i] = "proc" THEN "child" ELSE "thread", i>>})
                                          \cup (IF i = shape.n /\ shape.captured THEN {<<"pump", i>>} ELSE {})
                        /\ handlers' = IF i = shape.n /\ ~shape.bg THEN "swapped" ELSE handlers
                        /\ i' = i + 1 /\ UNCHANGED <<pc, failed>>
         /\ UNCHANGED <<shape, res>>

\* stage k can only end once its input can reach end-of-file: the shell no longer holds the write end
\* of the connection in front of it (a consumer that exits early, or an alias that raises, does not wait)
CanFinish(k) == k = 1 \/ <<"pipeW", k - 1>> \notin owned \/ shape.fault \in {"consumer_exits_early", "alias_raises"}

\* the stages end one after the other (normally, by raising, or because the consumer left); as each
\* producer ends the shell closes its copy of the write end behind it
Drain == /\ pc = "drain"
         /\ IF i > shape.n
              THEN /\ failed' = (shape.fault \in {"alias_raises", "consumer_exits_early"})
                   /\ pc' = "close" /\ UNCHANGED <<i, owned>>
              ELSE /\ CanFinish(i)
                   /\ \/ owned' = owned \ {<<"pipeW", i>>}
                      \/ "Dev_WriterKeptAfterProducerExit" \in Deviations /\ UNCHANGED owned
                   /\ i' = i + 1 /\ UNCHANGED <<pc, failed>>
         /\ UNCHANGED <<shape, handlers, res>>

Close == /\ pc = "close"
         /\ \/ owned' = {} /\ handlers' = "original"
            \/ /\ "Dev_EarlyExitLeavesProducer" \in Deviations /\ shape.fault = "consumer_exits_early"
               /\ owned' = {r \in owned : r[1] \in {"child", "thread"} /\ r[2] < shape.n} /\ handlers' = "original"
         /\ pc' = "done" /\ UNCHANGED <<shape, i, failed>>
         /\ res' = [clean |-> owned' = {} /\ handlers' = "original", dev |-> IF owned' = {} THEN "" ELSE "Dev_EarlyExitLeavesProducer"]

(* A background pipeline (`a | b &`) is never drained or closed by the command that started it
   (specs._run_specs returns at once): the shell gives up its own copies of the connecting pipe ends
   whose users are child processes right away (pipelines._release_connecting_pipes) - otherwise the
   consumer never sees end-of-file and the job never ends - and the job machinery reaps the children
   when they exit.  Ends used by in-process stages (alias threads) are closed by those threads. *)
UsedByChild(r) == \/ r[1] = "pipeW" /\ shape.kinds[r[2]] = "proc"
                  \/ r[1] = "pipeR" /\ shape.kinds[r[2] + 1] = "proc"
BgRelease == /\ pc = "bgrelease"
             /\ \/ owned' = {r \in owned : ~UsedByChild(r)}
                \/ "Dev_BackgroundKeepsConnectingPipes" \in Deviations /\ UNCHANGED owned
             /\ pc' = "bgwait" /\ UNCHANGED <<shape, i, handlers, failed, res>>
\* the job ends: every child whose input can reach end-of-file exits and is reaped; the alias threads close their ends
\* the shell still holds a write end of stage k's input that nobody will close (a thread closes its own)
Starved(k) == k > 1 /\ <<"pipeW", k - 1>> \in owned /\ UsedByChild(<<"pipeW", k - 1>>)
BgWait == /\ pc = "bgwait"
          /\ \/ owned' = {r \in owned : (r[1] \in {"child", "thread"} /\ Starved(r[2])) \/ (r[1] \in {"pipeR", "pipeW"} /\ UsedByChild(r))}
             \/ \* nobody waits for the proxy threads of a background pipeline: the read end an alias stage reads
                \* from, and the capture pipes of an alias that is the last stage, stay open in the shell
                /\ "Dev_BackgroundAliasKeepsPipes" \in Deviations
                /\ \E k \in 1..shape.n : shape.kinds[k] = "alias" /\ (k >= 2 \/ k = shape.n \/ shape.n >= 3)
                /\ owned' = {r \in owned : r[1] = "pipeR" /\ ~UsedByChild(r)}
                             \cup (IF shape.kinds[shape.n] = "alias" THEN {<<"capR", shape.n>>, <<"capW", shape.n>>} ELSE {})
          /\ pc' = "done" /\ UNCHANGED <<shape, i, handlers, failed>>
          /\ res' = [clean |-> owned' = {}, dev |-> ""]

Next == Choose \/ Build \/ Wire \/ Start \/ Drain \/ Close \/ BgRelease \/ BgWait
Spec == Init /\ [][Next]_vars /\ WF_vars(Next)

(* ---- judgement used by the trace specification -------------------------------------------- *)
\* feat: the real scenario's features; clean: every snapshot after the runs equals the one before
ObsDevEnabled(d, feat) ==
  CASE d = "Dev_NotFoundLeaksEarlierStages" -> feat.fault = "not_found" /\ feat.at >= 2
    [] d = "Dev_BackgroundKeepsConnectingPipes" -> feat.form = "background" /\ feat.n >= 2
    \* (also an alias as the first of three or more stages: `myalias | cat | cat &` leaves both children running)
    [] d = "Dev_BackgroundAliasKeepsPipes" -> feat.form = "background" /\ (feat.lastkind = "alias" \/ feat.aliasreader \/ (feat.firstkind = "alias" /\ feat.n >= 3))
    [] OTHER -> FALSE
Judge(feat, clean) == clean \/ \E d \in Deviations : ObsDevEnabled(d, feat) /\ ~clean

(* ---- properties ---------------------------------------------------------------------------- *)
Quiescent == pc = "done"
LeavesNothing == Quiescent => owned = {} /\ handlers = "original"
\* once every stage has ended the shell holds no write end of a connecting pipe any more
NoWriterAfterDrain == pc = "close" => \A k \in 1..shape.n : <<"pipeW", k>> \notin owned
OnlyRunningThingsWhileDraining == pc = "drain" => \A r \in owned : r[1] \in {"child", "thread", "pump", "capR", "capW", "pipeR", "pipeW", "file", "infile"}
Terminates == <>(pc = "done")
\* the same without a liveness tableau (which costs 20 s on this graph: the initial state has thousands of
\* successors): no state before "done" is stuck, and every step increases a bounded rank
PhaseRank == [idle |-> 0, build |-> 1, wire |-> 2, start |-> 3, drain |-> 4, bgrelease |-> 4, close |-> 5, bgwait |-> 5, done |-> 6]
Rank == PhaseRank[pc] * 8 + i
NoStuck == pc # "done" => ENABLED Next
Progress == [][Rank' > Rank]_vars
=============================================================================
