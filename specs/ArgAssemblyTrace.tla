-------------------------- MODULE ArgAssemblyTrace --------------------------
(* Trace validation for ArgAssembly: each trace is one executed command line; the observed argv (of a
   callable alias and of a real child) is classified per element as the verbatim or the expanded
   form of an atom's string. *)
EXTENDS ArgAssembly, Json, IOUtils, TLCExt

Traces == JsonDeserialize(IOEnv.TRACE_FILE)

VARIABLES tid, l, used
tvars == <<vars, tid, l, used>>

TInit == /\ tid \in 1..Len(Traces) /\ l = 1 /\ used = {} /\ Init

TStep ==
  /\ l <= Len(Traces[tid].steps)
  /\ LET e == Traces[tid].steps[l] IN
       /\ Run(e.atoms)
       /\ res'.argv = e.obs.alias_argv /\ res'.argv = e.obs.child_argv
       /\ used' = IF res'.dev = "" THEN used ELSE used \cup {res'.dev}
  /\ l' = l + 1 /\ tid' = tid

TSpec == TInit /\ [][TStep]_tvars

Report == /\ PrintT(<<"P", tid, l>>)
          /\ (l > Len(Traces[tid].steps) => PrintT(<<"D", tid, ToJson(used)>>))
=============================================================================
