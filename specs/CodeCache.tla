----------------------------- MODULE CodeCache -----------------------------
(* C19: cached bytecode never changes what a script does.

   Script store:  the script is run through a symlink `cur` that points at file F1 or at a
   second file F2 (content version 3, mtime 0, never edited; `entry2` is its cache entry - entries
   belong to real files, never to the path used).  `src` is F1 (content version, mtime), `entry` its cache file
   ([kind, from, mtime]: kind "ok" | "xver" | "pyver" (foreign header) | "trunc" | "garbage" |
   "none").  `clock` is the logical time (mtimes are set explicitly in the replay).
   Code store (`-c` text and scripts on stdin): `centry[t][mode]` for each code text and
   compilation mode: under which binding context the cached code object was compiled, or none.  ctx = whether the first word
   of the text was a bound name when it was compiled (the Python-vs-command decision is baked into
   the bytecode).
   A run is observed by which content version ran / under which (mode, ctx) meaning. *)
EXTENDS Naturals, Sequences, FiniteSets, TLC

CONSTANTS MaxClock, Texts, Deviations

DevNames == {"Dev_KeyIgnoresMode", "Dev_CacheIgnoresContext"}

VARIABLES src, entry, clock, sw, centry, contract, link, entry2, act, res
vars == <<src, entry, clock, sw, centry, contract, link, entry2, act, res>>
view == <<src, entry, clock, sw, centry, contract, link, entry2>>

Modes == {"exec", "single"}
NoEntry == [kind |-> "none", from |-> 0, mtime |-> 0]
NoCode == [kind |-> "none", mode |-> "", ctx |-> FALSE]
Switches == [envScripts : BOOLEAN, envAll : BOOLEAN, scriptcache : BOOLEAN, cacheall : BOOLEAN]
Lab(cmd, a, b, c) == [cmd |-> cmd, a |-> a, b |-> b, c |-> c]
NoRes == [ran |-> 0, mode |-> "", ctx |-> FALSE, fatal |-> FALSE, dev |-> ""]

\* should_use_cache
UseScriptCache == (sw.scriptcache \/ sw.cacheall) /\ (sw.envScripts \/ sw.envAll)
UseCodeCache(mode) == IF mode = "exec" THEN UseScriptCache ELSE (sw.cacheall \/ sw.envAll)

\* ---------------------------- the script and time ----------------------------------------
Tick == /\ clock < MaxClock /\ clock' = clock + 1
        /\ act' = Lab("tick", 0, 0, 0) /\ res' = NoRes
        /\ UNCHANGED <<src, entry, sw, centry, contract, link, entry2>>
\* the script (file F1) is replaced by a new version whose mtime is m <= now (an edit stamped
\* "now", or a version prepared earlier and installed with mv / cp -p / rsync keeping its timestamp)
EditAt(m) == /\ m \in 0..clock
             /\ src' = [content |-> 3 - src.content, mtime |-> m]
             \* the statement's contract: the source gets a *newer* mtime than the entry
             /\ contract' = (contract /\ (entry.kind = "none" \/ m > entry.mtime))
             /\ act' = Lab("editat", m, 0, 0) /\ res' = NoRes
             /\ UNCHANGED <<entry, clock, sw, centry, link, entry2>>
Touch == /\ src' = [src EXCEPT !.mtime = clock]
         /\ act' = Lab("touch", 0, 0, 0) /\ res' = NoRes
         /\ UNCHANGED <<entry, clock, sw, centry, contract, link, entry2>>
\* the cache file is damaged: foreign version header, truncation by a crash, garbage
Damage(k) == /\ entry.kind = "ok" /\ k \in {"xver", "pyver", "trunc", "garbage"}
             /\ entry' = [entry EXCEPT !.kind = k]
             /\ act' = Lab("damage", k, 0, 0) /\ res' = NoRes
             /\ UNCHANGED <<src, clock, sw, centry, contract, link, entry2>>
SetSwitches(s) == /\ s \in Switches /\ s # sw /\ sw' = s
                  /\ act' = Lab("switch", 0, 0, 0) /\ res' = NoRes
                  /\ UNCHANGED <<src, entry, clock, centry, contract, link, entry2>>

\* ---------------------------- running ------------------------------------------------------
EntryUsable == entry.kind = "ok" /\ entry.mtime >= src.mtime
\* `cur` is re-pointed to the other file
Relink == /\ link' = IF link = "F1" THEN "F2" ELSE "F1"
          /\ act' = Lab("relink", 0, 0, 0) /\ res' = NoRes
          /\ UNCHANGED <<src, entry, clock, sw, centry, contract, entry2>>
RunScript ==
  /\ act' = Lab("runscript", 0, 0, 0)
  /\ UNCHANGED <<src, clock, sw, centry, link>>
  /\ IF link = "F1"
     THEN /\ UNCHANGED entry2
          /\ IF UseScriptCache /\ EntryUsable
             THEN /\ res' = [NoRes EXCEPT !.ran = entry.from]
                  /\ UNCHANGED <<entry, contract>>
             ELSE /\ res' = [NoRes EXCEPT !.ran = src.content]
                  /\ entry' = IF UseScriptCache THEN [kind |-> "ok", from |-> src.content, mtime |-> clock] ELSE entry
                  /\ contract' = IF UseScriptCache THEN TRUE ELSE contract
     ELSE \* F2 never changes: cached or not, its own content (3) runs
          /\ res' = [NoRes EXCEPT !.ran = 3]
          /\ entry2' = IF UseScriptCache THEN "ok" ELSE entry2
          /\ UNCHANGED <<entry, contract>>

RunCode(t, mode, ctx) ==
  /\ act' = Lab("runcode", t, mode, ctx)
  /\ UNCHANGED <<src, entry, clock, sw, contract, link, entry2>>
  /\ LET e == centry[t][mode]
         hit == UseCodeCache(mode) /\ e.kind = "ok"
         other == CHOOSE m \in Modes : m # mode
     IN \/ \* uncached meaning; an entry compiled for the same mode and context may be reused
           /\ res' = [NoRes EXCEPT !.mode = mode, !.ctx = ctx]
           /\ centry' = IF UseCodeCache(mode) THEN [centry EXCEPT ![t][mode] = [kind |-> "ok", mode |-> mode, ctx |-> ctx]] ELSE centry
        \/ \* the key is the digest of the text only: a code object compiled for the other mode is reused
           /\ "Dev_KeyIgnoresMode" \in Deviations /\ UseCodeCache(mode) /\ centry[t][other].kind = "ok" /\ centry[t][other].ctx = ctx
           /\ res' = [NoRes EXCEPT !.mode = other, !.ctx = ctx, !.dev = "Dev_KeyIgnoresMode"]
           /\ centry' = centry
        \/ \* the binding context is not part of the key
           \* (Python bytecode run where the names are no longer bound dies with NameError)
           /\ "Dev_CacheIgnoresContext" \in Deviations /\ hit /\ e.ctx # ctx
           /\ res' = [NoRes EXCEPT !.mode = mode, !.ctx = e.ctx, !.fatal = (e.ctx /\ ~ctx), !.dev = "Dev_CacheIgnoresContext"]
           /\ centry' = centry
DamageCode(t, m, k) == /\ centry[t][m].kind = "ok" /\ k \in {"xver", "trunc"}
                       /\ centry' = [centry EXCEPT ![t][m].kind = k]
                       /\ act' = Lab("damagecode", t, k, m) /\ res' = NoRes
                       /\ UNCHANGED <<src, entry, clock, sw, contract, link, entry2>>

Init == /\ src = [content |-> 1, mtime |-> 0] /\ entry = NoEntry /\ clock = 0
        /\ link = "F1" /\ entry2 = "none"
        /\ sw \in Switches /\ centry = [t \in Texts |-> [m \in Modes |-> NoCode]] /\ contract = TRUE
        /\ act = Lab("init", 0, 0, 0) /\ res = NoRes

Next == \/ Tick \/ Touch \/ RunScript \/ Relink
        \/ \E m \in 0..MaxClock : EditAt(m)
        \/ \E k \in {"xver", "pyver", "trunc", "garbage"} : Damage(k)
        \/ \E s \in Switches : SetSwitches(s)
        \/ \E t \in Texts, m \in Modes, c \in BOOLEAN : RunCode(t, m, c)
        \/ \E t \in Texts, m \in Modes, k \in {"xver", "trunc"} : DamageCode(t, m, k)

Spec == Init /\ [][Next]_vars

\* ---------------------------- the property -----------------------------------------------
IsRun == act'.cmd = "runscript" /\ link = "F1"
\* different script files never share an entry: through the link, the target's content runs
FilesSeparate == [][(act'.cmd = "runscript" /\ link = "F2") => res'.ran = 3]_vars
\* once the source is newer than the entry, the new source runs
Fresh == [][(IsRun /\ entry.kind # "none" /\ src.mtime > entry.mtime) => res'.ran = src.content]_vars
\* damaged or foreign entries are never executed and never fatal
Robust == [][(IsRun /\ entry.kind \in {"xver", "pyver", "trunc", "garbage"}) =>
                (res'.ran = src.content /\ ~res'.fatal)]_vars
\* within the invalidation contract a cached run is an uncached run
SameAsUncached == [][(IsRun /\ contract) => res'.ran = src.content]_vars
\* code runs mean what they mean uncached, whatever was cached before
CodeSameAsUncached == [][act'.cmd = "runcode" => (res'.mode = act'.b /\ res'.ctx = act'.c /\ ~res'.fatal)]_vars
\* the switches: nothing is written with caching off
OffMeansOff == [][(IsRun /\ ~UseScriptCache) => entry' = entry]_vars
=============================================================================
