SPECIFICATION Spec
CONSTANTS
  Names = {"a", "b", "c"}
  Others = {"x"}
  Decs = {"@d1"}
  MaxBody = 2
  Deviations = {}
VIEW view
INVARIANT DepthBounded
INVARIANT EachOnce
INVARIANT ArgsPreserved
INVARIANT StepwiseIsReference
PROPERTY Terminates
CHECK_DEADLOCK FALSE
