SPECIFICATION Spec
CONSTANTS
  MaxPath = 2
  Deviations = {}
VIEW view
PROPERTY LocateIsPosix
PROPERTY NeverFromCwdImplicitly
PROPERTY CacheNeverStale
CHECK_DEADLOCK FALSE
