SPECIFICATION Spec
CONSTANTS
  MaxSegs = 2
  MaxAtoms = 1
  Atoms = {"word", "lflageq", "dash"}
  MCSemis = {"none", "before", "after", "both"}
  MCBlocks = {"if", "def"}
  Deviations = {}
INVARIANT Equivalent
INVARIANT WrapIsExact
INVARIANT AmpOnlyLast
CHECK_DEADLOCK FALSE
