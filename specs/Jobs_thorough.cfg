SPECIFICATION Spec
CONSTANTS
  Deviations = {}
  MaxJobs = 4
VIEW view
INVARIANT TypeOK
INVARIANT TasksPerm
INVARIANT NoDeadAfterPurge
INVARIANT JobsListsLive
PROPERTY LowestFree
PROPERTY ErrorAltersNothing
PROPERTY SelectionRule
CHECK_DEADLOCK FALSE
