--------------------------- MODULE DirStackTrace ---------------------------
(* Trace validation for DirStack: every recorded execution of the real xonsh directory
   commands must be a behaviour of DirStack.  One behaviour per trace id; each step is the
   spec action named by the logged command, conjoined with the logged projection of the real
   state.  Prints <<"P", tid, l>> for every matched prefix and <<"D", tid, used>> at the end. *)
EXTENDS DirStack, Json, IOUtils, TLCExt

Traces == JsonDeserialize(IOEnv.TRACE_FILE)

VARIABLES tid, l, used
tvars == <<vars, tid, l, used>>

TInit == /\ tid \in 1..Len(Traces) /\ l = 1 /\ used = {}
         /\ Init /\ conf = Traces[tid].conf

TStep ==
  /\ l <= Len(Traces[tid].steps)
  /\ LET e == Traces[tid].steps[l] IN
       /\ \/ e.cmd = "cd" /\ Cd(e.arg, e.flag)
          \/ e.cmd = "pushd" /\ Pushd(e.arg, e.flag)
          \/ e.cmd = "popd" /\ Popd(e.arg, e.flag)
          \/ e.cmd = "dirs" /\ Dirs(e.arg)
          \/ e.cmd = "rmdir" /\ Rmdir(e.arg.path)
          \/ e.cmd = "mkdir" /\ Mkdir(e.arg.path)
          \/ e.cmd = "extchdir" /\ ExternalChdirFix(e.arg.path)
          \/ e.cmd = "withcd" /\ WithCd(e.arg.path)
          \/ e.cmd = "fixcwd" /\ FixCwd
          \/ e.cmd = "setconf" /\ Configure(e.conf)
       /\ pcwd' = e.obs.pcwd /\ pwd' = e.obs.pwd /\ oldpwd' = e.obs.oldpwd /\ stack' = e.obs.stack
       /\ (IsDirCmd' => res'.failed = e.obs.failed)
       /\ (e.cmd = "dirs" /\ ~e.obs.failed => res'.out = e.obs.out)
       /\ used' = IF res'.dev = "" THEN used ELSE used \cup {res'.dev}
  /\ l' = l + 1 /\ tid' = tid

TSpec == TInit /\ [][TStep]_tvars

Report == /\ PrintT(<<"P", tid, l>>)
          /\ (l > Len(Traces[tid].steps) => PrintT(<<"D", tid, ToJson(used)>>))
=============================================================================
