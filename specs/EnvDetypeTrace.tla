--------------------------- MODULE EnvDetypeTrace ---------------------------
(* Trace validation for EnvDetype: recorded set/del/mutate/launch histories on the real session
   environment; each launch is a real `env -0` child. *)
EXTENDS EnvDetype, Json, IOUtils, TLCExt

Traces == JsonDeserialize(IOEnv.TRACE_FILE)

VARIABLES tid, l, used
tvars == <<vars, tid, l, used>>

TInit == /\ tid \in 1..Len(Traces) /\ l = 1 /\ used = {} /\ Init

TStep ==
  /\ l <= Len(Traces[tid].steps)
  /\ LET e == Traces[tid].steps[l] IN
       /\ \/ e.cmd = "set" /\ Set(e.k, e.v)
          \/ e.cmd = "del" /\ Del(e.k)
          \/ e.cmd = "readref" /\ ReadRef
          \/ e.cmd = "mutenv" /\ MutateThroughEnv
          \/ e.cmd = "mutheld" /\ MutateHeld
          \/ e.cmd = "togglerule" /\ ToggleRule
          \/ e.cmd = "launch" /\ Launch(e.k, e.v) /\ res'.child = e.obs.map /\ (res'.dev = "" => res'.back = e.obs.back)
               \* the real child (whole command path) always sees the values at launch time
               /\ (e.obs.real => e.obs.child = [k \in Keys |-> IF k = e.k THEN e.v ELSE val[k]])
               \* the mirrored (deprecated) name of R always carries the same value
               /\ e.obs.mirror = res'.child["R"]
       /\ used' = IF res'.dev = "" THEN used ELSE used \cup {res'.dev}
  /\ l' = l + 1 /\ tid' = tid

TSpec == TInit /\ [][TStep]_tvars

Report == /\ PrintT(<<"P", tid, l>>)
          /\ (l > Len(Traces[tid].steps) => PrintT(<<"D", tid, ToJson(used)>>))
=============================================================================
