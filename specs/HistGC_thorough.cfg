SPECIFICATION Spec
CONSTANTS
  MaxFiles = 3
  Ages = {1, 2, 3, 4}
  Cmds = {0, 1, 2}
  Bytes = {1, 3}
  Limits = {0, 1, 2, 3, 4}
  Deviations = {}
VIEW view
PROPERTY NeverLive
PROPERTY OldestFirstOnly
PROPERTY KeptFits
PROPERTY Maximal
PROPERTY NothingIfWithin
PROPERTY RefusalRule
PROPERTY SqlKeepsNewest
CHECK_DEADLOCK FALSE
