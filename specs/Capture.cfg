SPECIFICATION FairSpec
CONSTANTS
  N = 4
  PipeCap = 2
  ReadMax = 2
  Hint = 1
  FROrder <- CodeOrder
  Deviations = {}
INVARIANT PrefixAlways
INVARIANT Complete
INVARIANT BufferExact
INVARIANT EOFOnlyAfterAll
INVARIANT NoDeadlock
PROPERTY Termination
CHECK_DEADLOCK FALSE
