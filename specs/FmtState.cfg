SPECIFICATION Spec
CONSTANTS
  MaxToks = 3
  Deviations = {}
INVARIANT Skeleton
INVARIANT Idempotent
INVARIANT BlankCap
INVARIANT Judged
CHECK_DEADLOCK FALSE
