SPECIFICATION Spec
CONSTANTS
  Deviations = {}
  MaxN = 3
  Sizes = {1, 2, 20}
  MaxStack = 3
VIEW view
CONSTRAINT Bounded
INVARIANT TypeOK
INVARIANT PwdNamesCwd
INVARIANT PushdPopdRestores
PROPERTY FailChangesNothing
PROPERTY OldpwdIsPrevious
PROPERTY StackBounded
PROPERTY PushdRotates
PROPERTY PopdRemovesOne
CHECK_DEADLOCK FALSE
