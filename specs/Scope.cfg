SPECIFICATION Spec
CONSTANTS
  Names = {"a", "b"}
  MaxStmts = 4
  Deviations = {}
PROPERTY PythonWins
PROPERTY UnboundIsCommand
PROPERTY BlockRestores
CHECK_DEADLOCK FALSE
