----------------------------- MODULE HistStore -----------------------------
(* C12 (sequential part): history records every command once, in order, and reads it back verbatim.

   `ref` is the reference list: every appended command that $HISTCONTROL / ignore rules do not
   exclude, in append order ([t, rtn]: text id and return code).  `nbuf` is how many of them are
   still in the memory buffer (the rest is on disk) - the memory/disk boundary that indexing has to
   cross.  Reads at quiescent points (no flusher running) must return exactly `ref`. *)
EXTENDS Naturals, Sequences, FiniteSets, TLC

CONSTANTS Texts, MaxLen, BufSizes, Deviations

DevNames == {"Dev_IgnoreDupsPerBatch"}

VARIABLES ref, nbuf, last, blast, conf, act, res
vars == <<ref, nbuf, last, blast, conf, act, res>>
view == <<ref, nbuf, last, blast, conf>>

Opts == SUBSET {"ignoredups", "ignoreerr", "ignorespace"}
Confs == [buf : BufSizes, opts : Opts, backend : {"json", "sqlite"}]
Lab(cmd, t, rtn, spc) == [cmd |-> cmd, t |-> t, rtn |-> rtn, spc |-> spc]
NoRes == [len |-> 0, items |-> <<>>, dev |-> ""]

Excluded(t, rtn, spc) ==
  \/ "ignorespace" \in conf.opts /\ spc
  \/ "ignoreerr" \in conf.opts /\ rtn # 0
  \/ "ignoredups" \in conf.opts /\ last = t
\* the JSON flusher compares only within the batch it is writing (`blast` = last text of the current
\* batch, "" at its start): a duplicate of the last command of the previous batch is kept
ExcludedPerBatch(t, rtn, spc) ==
  \/ "ignorespace" \in conf.opts /\ spc
  \/ "ignoreerr" \in conf.opts /\ rtn # 0
  \/ "ignoredups" \in conf.opts /\ blast = t

\* `nbuf` counts the raw entries of the JSON buffer: everything appended except what ignorespace
\* drops at once (ignoredups / ignoreerr are applied when the batch is written)
Buffered == IF conf.backend = "sqlite" THEN 0 ELSE IF nbuf + 1 >= conf.buf THEN 0 ELSE nbuf + 1
BatchEnds == conf.backend = "sqlite" \/ nbuf + 1 >= conf.buf
Accept(t, rtn, dev) ==
  /\ ref' = Append(ref, [t |-> t, rtn |-> rtn])
  /\ last' = t
  /\ nbuf' = Buffered
  /\ blast' = IF BatchEnds THEN "" ELSE t
  /\ res' = [NoRes EXCEPT !.dev = dev]
Reject(spcDrop) ==
  /\ UNCHANGED <<ref, last>> /\ res' = NoRes
  /\ nbuf' = IF spcDrop THEN nbuf ELSE Buffered
  /\ blast' = IF spcDrop THEN blast ELSE IF BatchEnds THEN "" ELSE blast

AppendCmd(t, rtn, spc) ==
  /\ Len(ref) < MaxLen
  /\ act' = Lab("append", t, rtn, spc) /\ UNCHANGED conf
  /\ \/ Excluded(t, rtn, spc) /\ Reject("ignorespace" \in conf.opts /\ spc)
     \/ ~Excluded(t, rtn, spc) /\ Accept(t, rtn, "")
     \/ /\ "Dev_IgnoreDupsPerBatch" \in Deviations /\ conf.backend = "json"
        /\ Excluded(t, rtn, spc) /\ ~ExcludedPerBatch(t, rtn, spc)
        /\ Accept(t, rtn, "Dev_IgnoreDupsPerBatch")

Flush == /\ nbuf' = 0 /\ blast' = "" /\ act' = Lab("flush", "", 0, FALSE) /\ res' = NoRes /\ UNCHANGED <<ref, last, conf>>

\* len, every index, slices, iteration, the decoded store: all equal the reference list
Read == /\ act' = Lab("read", "", 0, FALSE)
        /\ res' = [len |-> Len(ref), items |-> ref, dev |-> ""]
        \* (the JSON back end applies ignoredups / ignoreerr when it flushes: such reads follow a flush)
        /\ nbuf' = IF conf.backend = "json" /\ conf.opts \cap {"ignoredups", "ignoreerr"} # {} THEN 0 ELSE nbuf
        /\ blast' = IF conf.backend = "json" /\ conf.opts \cap {"ignoredups", "ignoreerr"} # {} THEN "" ELSE blast
        /\ UNCHANGED <<ref, last, conf>>

Init == /\ ref = <<>> /\ nbuf = 0 /\ last = "" /\ blast = "" /\ conf \in Confs
        /\ act = Lab("init", "", 0, FALSE) /\ res = NoRes

Next == \/ \E t \in Texts, rtn \in {0, 1}, spc \in BOOLEAN : AppendCmd(t, rtn, spc)
        \/ Flush \/ Read

Spec == Init /\ [][Next]_vars

\* ---------------------------- the property -----------------------------------------------
\* nothing is lost, duplicated, invented or reordered: the list only ever grows at its end
AppendOnly == [][Len(ref') >= Len(ref) /\ SubSeq(ref', 1, Len(ref)) = ref]_vars
ReadIsRef == [][act'.cmd = "read" => (res'.len = Len(ref) /\ res'.items = ref)]_vars
BufferBounded == conf.backend = "json" => nbuf < conf.buf
=============================================================================
