SPECIFICATION Spec
CONSTANTS
  MaxAtoms = 2
  Kinds = {"word", "quoted", "raw", "triple", "fstr", "inj1", "injN", "injgen", "glued", "envvar", "macro"}
  Classes = {"plain", "space", "star", "dollar", "tilde", "quotes", "bslash", "newline", "brace", "empty", "nonascii"}
  Deviations = {}
PROPERTY Ordered
PROPERTY Multiplicity
PROPERTY VerbatimKinds
CHECK_DEADLOCK FALSE
