----------------------------- MODULE CmdGrammar -----------------------------
(* C03, first clause: a bare command line means exactly its explicit ![...] form, everywhere.

   A *shape* is what the property quantifies over: 1..MaxSegs command segments (a command word, then
   atoms of the subprocess grammar; optionally a pipe into a second command; optionally a trailing &),
   the chain operators joining them, and the statement position (after/before `;`, inside blocks of
   Python statements at some depth, trailing comment, backslash continuation inside a segment).

   The module derives, token by token, the two texts the property relates - the bare one and the
   one "wrapped by hand" - so that what "wrapped by hand" means is defined here and not by the code
   under test: Explicit(shape) brackets every segment, and only segments, exactly once, and removing
   the brackets gives back Bare(shape).  The judgement `Judge(shape)` is the property: both texts
   behave the same.  Behaviour a listed deviation explains is produced by the Dev_* disjunct only. *)
EXTENDS Naturals, Integers, Sequences, FiniteSets, TLC

CONSTANTS MaxSegs, MaxAtoms, Atoms, MCSemis, MCBlocks, Deviations

Words   == {"word", "flag", "lflag", "lflageq", "path", "dots", "eqword", "dashword", "num", "ddash", "dash",
            "colon", "comma", "plus", "at", "glob", "tilde"}
Quoted  == {"sq", "dq", "sqesc"}
Subst   == {"env", "envbr", "pyeval", "pylist", "capt", "uncapt"}
Redirs  == {"rout", "rapp", "rerr", "rerr2", "rall", "rmerge", "rin"}
AtomKinds == Words \cup Quoted \cup Subst \cup Redirs
Ops     == {"and", "or", "&&", "||"}
Blocks  == {"if", "else", "for", "while", "with", "def", "try", "except", "class"}
Semis   == {"none", "before", "after", "both"}

VARIABLES shape, res, phase
vars == <<shape, res, phase>>

SeqsUpTo(S, n) == UNION {[1..k -> S] : k \in 0..n}

SegOK(s) == /\ \A i \in 1..Len(s.atoms) : s.atoms[i] \in AtomKinds
            /\ \A i \in 1..Len(s.pipe) : s.pipe[i] \in AtomKinds
            /\ s.haspipe \in BOOLEAN /\ s.amp \in BOOLEAN
            /\ (~s.haspipe => s.pipe = <<>>)
            /\ s.cont \in 0..Len(s.atoms)          \* 0: no continuation; j: a backslash-newline before atom j

WellFormed(sh) ==
  /\ Len(sh.segs) >= 1 /\ Len(sh.ops) = Len(sh.segs) - 1
  /\ \A i \in 1..Len(sh.segs) : SegOK(sh.segs[i])
  /\ \A i \in 1..Len(sh.ops) : sh.ops[i] \in Ops
  \* `&` is a *trailing* ampersand: only the last segment of the line may carry it
  /\ \A i \in 1..(Len(sh.segs) - 1) : ~sh.segs[i].amp
  /\ sh.pos.semi \in Semis /\ sh.pos.comment \in BOOLEAN
  /\ \A i \in 1..Len(sh.pos.blocks) : sh.pos.blocks[i] \in Blocks

(* ---- the two renderings, as token sequences ---------------------------------------------- *)
SegToks(s) == <<"CMD">> \o s.atoms \o (IF s.haspipe THEN <<"|", "CMD">> \o s.pipe ELSE <<>>) \o (IF s.amp THEN <<"&">> ELSE <<>>)

RECURSIVE Join(_, _, _)
Join(segs, ops, wrap) ==
  IF segs = <<>> THEN <<>>
  ELSE LET one == IF wrap THEN <<"![">> \o SegToks(Head(segs)) \o <<"]">> ELSE SegToks(Head(segs)) IN
       IF Len(segs) = 1 THEN one ELSE one \o <<Head(ops)>> \o Join(Tail(segs), Tail(ops), wrap)

Bare(sh) == Join(sh.segs, sh.ops, FALSE)
Explicit(sh) == Join(sh.segs, sh.ops, TRUE)
Strip(toks) == SelectSeq(toks, LAMBDA t : t \notin {"![", "]"})
Count(toks, t) == Cardinality({i \in 1..Len(toks) : toks[i] = t})

\* bracket depth before position i of the explicit text
RECURSIVE Depth(_, _)
Depth(toks, i) == IF i = 0 THEN 0 ELSE Depth(toks, i - 1) + (IF toks[i] = "![" THEN 1 ELSE IF toks[i] = "]" THEN -1 ELSE 0)

(* ---- deviations (open known findings) ------------------------------------------------------ *)
\* a segment after a chain operator holds an argument that reads as the start of a Python
\* assignment to an expression (`--k=v`): the bare line is rejected although the explicit one runs
\* (`--k=v`, and `a=b` / `k:v` after a dash word: `c1 -- a=b`, `c1 - k:v` read as an assignment / annotation)
AssignLikeKinds == {"lflageq", "eqword", "colon"}
HasAssignLike(s) == (\E i \in 1..Len(s.atoms) : s.atoms[i] \in AssignLikeKinds) \/ (\E i \in 1..Len(s.pipe) : s.pipe[i] \in AssignLikeKinds)
AssignLikeAfterOperator(sh) == \E i \in 2..Len(sh.segs) : HasAssignLike(sh.segs[i])
\* in a chain, the marker telling an operand that the chain (not the operand) reports failure is
\* attached by one recognition path only: trees differ in that marker, behaviour differs under
\* $XONSH_SUBPROC_CMD_RAISE_ERROR (C05's Dev_CmdRaiseDependsOnParsePath seen from this side)

\* a backslash continuation inside a segment of a chain that sits in an indented block: the logical
\* line is re-assembled and wrapped on its own, and the result drops or repeats commands
\* (also seen at top level after `stmt;`; the enabling condition is the continuation inside a chain)
ContinuationChainInBlock(sh) == Len(sh.segs) >= 2 /\ \E i \in 1..Len(sh.segs) : sh.segs[i].cont > 0

\* a chain in an indented block one of whose segments holds a lone dash word (`-`, `--`): the segment
\* also reads as a Python subtraction, is wrapped by column window in the context-aware phase, and the
\* window is computed wrongly: other segments of the chain are dropped
HasDashWord(s) == (\E i \in 1..Len(s.atoms) : s.atoms[i] \in {"dash", "ddash"}) \/ (\E i \in 1..Len(s.pipe) : s.pipe[i] \in {"dash", "ddash"})
DashWordChainInBlock(sh) == Len(sh.segs) >= 2 /\ sh.pos.blocks # <<>> /\ \E i \in 1..Len(sh.segs) : HasDashWord(sh.segs[i])

(* ---- actions ----------------------------------------------------------------------------- *)
Init == shape = [segs |-> <<>>, ops |-> <<>>, pos |-> [semi |-> "none", comment |-> FALSE, blocks |-> <<>>]] /\ res = [same |-> TRUE, flagsame |-> TRUE, dev |-> ""] /\ phase = "idle"

Judge(sh) ==
  /\ phase = "idle" /\ WellFormed(sh)
  /\ shape' = sh /\ phase' = "judged"
  /\ \/ res' = [same |-> TRUE, flagsame |-> TRUE, dev |-> ""]
     \/ /\ "Dev_AssignLikeAfterOperator" \in Deviations /\ AssignLikeAfterOperator(sh)
        /\ res' = [same |-> FALSE, flagsame |-> TRUE, dev |-> "Dev_AssignLikeAfterOperator"]
     \/ /\ "Dev_ContinuationChainInBlock" \in Deviations /\ ContinuationChainInBlock(sh)
        /\ \E fs \in BOOLEAN : res' = [same |-> FALSE, flagsame |-> fs, dev |-> "Dev_ContinuationChainInBlock"]
     \/ /\ "Dev_DashWordChainInBlock" \in Deviations /\ DashWordChainInBlock(sh)
        /\ \E fs \in BOOLEAN : res' = [same |-> FALSE, flagsame |-> fs, dev |-> "Dev_DashWordChainInBlock"]
     \/ /\ "Dev_BoolopFlagDependsOnParsePath" \in Deviations /\ Len(sh.segs) >= 2
        /\ res' = [same |-> TRUE, flagsame |-> FALSE, dev |-> "Dev_BoolopFlagDependsOnParsePath"]

\* the model checker's universe: every shape over the constant Atoms
MCSeg == {s \in [atoms : SeqsUpTo(Atoms, MaxAtoms), pipe : SeqsUpTo(Atoms, 1), haspipe : BOOLEAN, amp : BOOLEAN, cont : 0..1] : SegOK(s)}
MCPos == [semi : MCSemis, comment : BOOLEAN, blocks : SeqsUpTo(MCBlocks, 1)]

\* (ranges mention a variable so that TLC does not split the relation into one action per element)
When(S) == IF phase = "idle" THEN S ELSE {}
Next == \E k \in When(1..MaxSegs) : \E segs \in When([1..k -> MCSeg]), ops \in When([1..(k - 1) -> Ops]), pos \in When(MCPos) :
          Judge([segs |-> segs, ops |-> ops, pos |-> pos])
Spec == Init /\ [][Next]_vars

(* ---- properties -------------------------------------------------------------------------- *)
Equivalent == phase = "judged" => res.same /\ res.flagsame
\* what "wrapped by hand" means
WrapIsExact == phase = "judged" =>
  LET e == Explicit(shape) b == Bare(shape) IN
    /\ Strip(e) = b
    /\ Count(e, "![") = Len(shape.segs) /\ Count(e, "]") = Len(shape.segs)
    /\ \A i \in 1..Len(e) : Depth(e, i) \in {0, 1}                       \* never nested
    /\ \A i \in 1..Len(e) : (e[i] \in Ops) = (Depth(e, i) = 0 /\ e[i] \notin {"]"})  \* operators, and only they, stay outside
    /\ Depth(e, Len(e)) = 0
AmpOnlyLast == phase = "judged" => \A i \in 1..Len(Bare(shape)) : Bare(shape)[i] = "&" => i = Len(Bare(shape))
=============================================================================
