----------------------------- MODULE ScopeTrace -----------------------------
(* Trace validation for Scope: each trace is one source text, statement by statement, with the
   Python-vs-command decision the real transformer took for every expression statement. *)
EXTENDS Scope, Json, IOUtils, TLCExt

Traces == JsonDeserialize(IOEnv.TRACE_FILE)

VARIABLES tid, l, used
tvars == <<vars, tid, l, used>>

TInit == /\ tid \in 1..Len(Traces) /\ l = 1 /\ used = {} /\ Init
         /\ session = {Traces[tid].session[i] : i \in 1..Len(Traces[tid].session)}

TStep ==
  /\ l <= Len(Traces[tid].steps)
  /\ LET e == Traces[tid].steps[l] IN
       /\ \/ e.cmd = "bind" /\ Bind(e.form, e.x)
          \/ e.cmd = "def" /\ Def(e.x, e.y)
          \/ e.cmd = "class" /\ Class(e.x)
          \/ e.cmd = "end" /\ EndBlock
          \/ e.cmd = "global" /\ Global(e.x)
          \/ e.cmd = "del" /\ Del(e.x)
          \/ e.cmd = "expr" /\ Expr(e.form, e.x, e.y) /\ res'.decision = e.obs.decision
       /\ used' = IF res'.dev = "" THEN used ELSE used \cup {res'.dev}
  /\ l' = l + 1 /\ tid' = tid

TSpec == TInit /\ [][TStep]_tvars

Report == /\ PrintT(<<"P", tid, l>>)
          /\ (l > Len(Traces[tid].steps) => PrintT(<<"D", tid, ToJson(used)>>))
=============================================================================
