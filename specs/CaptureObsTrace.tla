--------------------------- MODULE CaptureObsTrace ---------------------------
(* Validation of what the caller received in one real captured command against Capture's judgement:
   every view equals what the final stage was told to write, unless a listed deviation of the text
   views explains the difference (and then the raw bytes and the exit code must still be right). *)
EXTENDS Capture, Json, IOUtils, TLCExt

Traces == JsonDeserialize(IOEnv.TRACE_FILE)

VARIABLES tid, l, used
tvars == <<vars, tid, l, used>>

TInit == /\ tid \in 1..Len(Traces) /\ l = 1 /\ used = {} /\ Init

TStep ==
  /\ l <= Len(Traces[tid].steps)
  /\ LET e == Traces[tid].steps[l] IN
       /\ ObsJudge(Traces[tid].feat, e.obs.rawok, e.obs.ok)
       /\ used' = IF e.obs.ok THEN used ELSE {d \in Deviations : ObsDevEnabled(d, Traces[tid].feat)}
  /\ l' = l + 1 /\ tid' = tid /\ UNCHANGED vars

TSpec == TInit /\ [][TStep]_tvars

Report == /\ PrintT(<<"P", tid, l>>)
          /\ (l > Len(Traces[tid].steps) => PrintT(<<"D", tid, ToJson(used)>>))
=============================================================================
