--------------------------- MODULE HistStoreTrace ---------------------------
(* Trace validation for HistStore: recorded append/flush/read sequences on real JsonHistory and
   SqliteHistory objects; a read logs len(), every index, slices in both directions, iteration and
   the decoded on-disk store. *)
EXTENDS HistStore, Json, IOUtils, TLCExt

Traces == JsonDeserialize(IOEnv.TRACE_FILE)

VARIABLES tid, l, used
tvars == <<vars, tid, l, used>>

TInit == /\ tid \in 1..Len(Traces) /\ l = 1 /\ used = {} /\ Init
         /\ LET c == Traces[tid].conf IN
              conf = [buf |-> c.buf, opts |-> {c.opts[i] : i \in 1..Len(c.opts)}, backend |-> c.backend]

TStep ==
  /\ l <= Len(Traces[tid].steps)
  /\ LET e == Traces[tid].steps[l] IN
       /\ \/ e.cmd = "append" /\ AppendCmd(e.t, e.rtn, e.spc)
          \/ e.cmd = "flush" /\ Flush
          \/ /\ e.cmd = "read" /\ Read
             /\ res'.len = e.obs.len
             /\ \A v \in DOMAIN e.obs.views : e.obs.views[v] = res'.items
       /\ used' = IF res'.dev = "" THEN used ELSE used \cup {res'.dev}
  /\ l' = l + 1 /\ tid' = tid

TSpec == TInit /\ [][TStep]_tvars

Report == /\ PrintT(<<"P", tid, l>>)
          /\ (l > Len(Traces[tid].steps) => PrintT(<<"D", tid, ToJson(used)>>))
=============================================================================
