SPECIFICATION Spec
CONSTANTS
  MaxLines = 2
  MaxCol = 1
  BudgetBase = 0
  Deviations = {}
VIEW view
INVARIANT ExitKinds
INVARIANT DepthAtMostTwo
INVARIANT BudgetNeverNegative
INVARIANT SecondPassIsGreedy
PROPERTY VariantDecreases
PROPERTY GreedyMonotone
PROPERTY Termination
CHECK_DEADLOCK FALSE
