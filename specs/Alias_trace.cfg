SPECIFICATION Spec
CONSTANTS
  Names = {"a", "b", "c"}
  Others = {"x", "-f"}
  Decs = {"@d1", "@d2"}
  MaxBody = 2
  Deviations = {}
