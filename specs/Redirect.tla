------------------------------ MODULE Redirect ------------------------------
(* C07: redirections and pipes deliver each stream to exactly the documented place.

   One stage of a pipeline with a list of redirect operators.  An operator is [cls, mode, file]:
     cls   "out" (> o> out> 1>), "err" (e> err> 2>), "all" (a> all> &>), "e2o" (e>o 2>&1 ...),
           "o2e" (o>e 1>&2 ...), "e2p" (e>p ...), "a2p" (a>p ...), "in" (<)
     mode  "w" (truncate) | "a" (append, >>)          file  "f1" | "f2" (the target)
   The spelling of an operator is not part of the model: all documented spellings of a class are
   equivalent (the replay enumerates them).  piped = a stage follows after `|`; captured = the
   pipeline is run with $() (stdout of the last stage is the capture) instead of ![].
   Route(cfg) gives the destination of stdout and stderr:
     "f1:w" "f1:a" "f2:w" "f2:a" (file, truncated / appended), "pipe" (next stage's stdin),
     "cap" (the capture), "term1" / "term2" (the shell's own stdout / stderr), or an error. *)
EXTENDS Naturals, Sequences, FiniteSets, TLC

CONSTANTS MaxOps, Deviations

DevNames == {"Dev_O2ECaptured", "Dev_UaliasMergeIgnored", "Dev_UaliasO2ECrash"}

VARIABLES act, res
vars == <<act, res>>

Classes == {"out", "err", "all", "e2o", "o2e", "e2p", "a2p", "in"}
OpsSet == [cls : Classes, mode : {"w", "a"}, file : {"f1", "f2"}]
FileDest(o) == o.file \o ":" \o o.mode

\* the destination requests of one operator: [out, err, in] ("" = not touched)
Req(o) == CASE o.cls = "out" -> [out |-> FileDest(o), err |-> "", inn |-> ""]
            [] o.cls = "err" -> [out |-> "", err |-> FileDest(o), inn |-> ""]
            [] o.cls = "all" -> [out |-> FileDest(o), err |-> FileDest(o), inn |-> ""]
            [] o.cls = "e2o" -> [out |-> "", err |-> "=out", inn |-> ""]
            [] o.cls = "o2e" -> [out |-> "=err", err |-> "", inn |-> ""]
            [] o.cls = "e2p" -> [out |-> "", err |-> "pipe!", inn |-> ""]
            [] o.cls = "a2p" -> [out |-> "pipe!", err |-> "=out", inn |-> ""]
            [] OTHER -> [out |-> "", err |-> "", inn |-> o.file]

RECURSIVE Collect(_, _)
\* fold the operators: a second request for the same stream is a conflict
Collect(ops, acc) ==
  IF ops = <<>> THEN acc
  ELSE LET r == Req(Head(ops))
           conflict == (r.out # "" /\ acc.out # "") \/ (r.err # "" /\ acc.err # "") \/ (r.inn # "" /\ acc.inn # "")
       IN IF conflict \/ acc.error THEN [acc EXCEPT !.error = TRUE]
          ELSE Collect(Tail(ops), [out |-> IF r.out # "" THEN r.out ELSE acc.out,
                                   err |-> IF r.err # "" THEN r.err ELSE acc.err,
                                   inn |-> IF r.inn # "" THEN r.inn ELSE acc.inn, error |-> FALSE])

Route(cfg) ==
  LET c == Collect(cfg.ops, [out |-> "", err |-> "", inn |-> "", error |-> FALSE])
      defOut == IF cfg.piped THEN "pipe" ELSE IF cfg.captured THEN "cap" ELSE "term1"
      defErr == "term2"
      \* `e>p` / `a>p` need a following pipe; reading a pipe and a file at once is not possible
      bad == c.error \/ ((c.out = "pipe!" \/ c.err = "pipe!") /\ ~cfg.piped)
                     \/ (c.out = "=err" /\ c.err = "=out")
                     \* stdout cannot go to the next stage and somewhere else at once
                     \* (unless `e>p` gives the pipe to stderr)
                     \/ (cfg.piped /\ c.out \notin {"", "pipe!"} /\ c.err # "pipe!")
                     \* a callable alias marked unthreadable cannot feed a pipe
                     \/ (cfg.piped /\ cfg.kind = "ualias")
      out0 == IF c.out \in {"", "=err"} THEN defOut ELSE IF c.out = "pipe!" THEN "pipe" ELSE c.out
      err0 == IF c.err \in {"", "=out"} THEN defErr ELSE IF c.err = "pipe!" THEN "pipe" ELSE c.err
      out == IF c.out = "=err" THEN err0 ELSE out0
      err == IF c.err = "=out" THEN out0 ELSE err0
  IN IF bad THEN [out |-> "error", err |-> "error", inn |-> "", error |-> TRUE, dev |-> ""]
     ELSE [out |-> out, err |-> err, inn |-> c.inn, error |-> FALSE, dev |-> ""]

Has(cfg, cls) == \E i \in 1..Len(cfg.ops) : cfg.ops[i].cls = cls
\* what the pinned code does instead, for the combinations where it departs from Route
Outcomes(cfg) ==
  LET r == Route(cfg) IN
  {r}
  \cup (IF "Dev_O2ECaptured" \in Deviations /\ ~r.error /\ cfg.captured /\ ~cfg.piped /\ Has(cfg, "o2e")
        THEN {[r EXCEPT !.out = "term1", !.err = IF cfg.kind = "talias" THEN "term1" ELSE r.err, !.dev = "Dev_O2ECaptured"]} ELSE {})
  \cup (IF "Dev_UaliasMergeIgnored" \in Deviations /\ ~r.error /\ cfg.kind = "ualias" /\ ~cfg.captured /\ Has(cfg, "e2o")
        THEN {[r EXCEPT !.err = "term2", !.dev = "Dev_UaliasMergeIgnored"]} ELSE {})
  \cup (IF "Dev_UaliasO2ECrash" \in Deviations /\ ~r.error /\ cfg.kind = "ualias" /\ ~cfg.captured /\ Has(cfg, "o2e")
        THEN {[out |-> "exception", err |-> "exception", inn |-> "", error |-> TRUE, dev |-> "Dev_UaliasO2ECrash"]} ELSE {})

Configs == [ops : UNION {[1..n -> OpsSet] : n \in 0..MaxOps}, piped : BOOLEAN, captured : BOOLEAN,
            kind : {"proc", "talias", "ualias"}]
NoCfg == [ops |-> <<>>, piped |-> FALSE, captured |-> FALSE, kind |-> "none"]
Run(cfg) == act = NoCfg /\ act' = cfg /\ \E o \in Outcomes(cfg) : res' = o
Init == act = NoCfg /\ res = [out |-> "", err |-> "", inn |-> "", error |-> FALSE, dev |-> ""]
Next == \E cfg \in Configs : Run(cfg)
Spec == Init /\ [][Next]_vars

\* ---------------------------- the property -----------------------------------------------
Dests == {"f1:w", "f1:a", "f2:w", "f2:a", "pipe", "cap", "term1", "term2"}
\* every stream ends at exactly one documented place, or the redirect is reported as an error
OneDestination == [][res'.error \/ (res'.out \in Dests /\ res'.err \in Dests)]_vars
\* an operator that names a stream decides where it goes
OutFollowsOperator == [][(~res'.error /\ \E i \in 1..Len(act'.ops) : act'.ops[i].cls \in {"out", "all"}) =>
                           \E i \in 1..Len(act'.ops) : act'.ops[i].cls \in {"out", "all"} /\ res'.out = FileDest(act'.ops[i])]_vars
ErrFollowsOperator == [][(~res'.error /\ \E i \in 1..Len(act'.ops) : act'.ops[i].cls \in {"err", "all"}) =>
                           \E i \in 1..Len(act'.ops) : act'.ops[i].cls \in {"err", "all"} /\ res'.err = FileDest(act'.ops[i])]_vars
\* merging operators make both streams end in the same place
MergeMeansSame == [][(~res'.error /\ \E i \in 1..Len(act'.ops) : act'.ops[i].cls \in {"e2o", "o2e", "a2p", "all"}) => res'.out = res'.err]_vars
\* pipe redirects without a following pipe, and two redirects of one stream, are errors
ConflictsAreErrors == [][(\E i, j \in 1..Len(act'.ops) : i < j /\ act'.ops[i].cls = act'.ops[j].cls) => res'.error]_vars
\* unredirected stdout goes to the next stage, the capture or the terminal - never elsewhere
\* errors are XonshErrors about the redirect, never an internal exception or a silent mis-route
NoCrash == [][res'.out # "exception"]_vars
DefaultOut == [][(~res'.error /\ \A i \in 1..Len(act'.ops) : act'.ops[i].cls \in {"err", "in", "e2o", "e2p"}) =>
                   res'.out = (IF act'.piped THEN "pipe" ELSE IF act'.captured THEN "cap" ELSE "term1")]_vars
=============================================================================
