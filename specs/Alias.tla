------------------------------- MODULE Alias -------------------------------
(* C15: alias expansion always terminates and preserves the user's arguments.

   The alias table maps names to bodies:
     [kind |-> "list", toks]   a list alias (`ls = ls --color`); leading decorator tokens allowed
     [kind |-> "fn"]           a callable alias (expansion stops there)
     [kind |-> "rc", toks]     a return-command alias: called with the accumulated arguments,
                               returns the command  toks \o args
     [kind |-> "dec"]          a decorator alias (@d1, @d2)
   The expansion is modelled step by step (one action per recursion level of the
   real resolver) so that TLC decides termination for every table, cycles included; the
   same transition function, iterated, is the reference result used for trace validation. *)
EXTENDS Naturals, Sequences, FiniteSets, SequencesExt, TLC

CONSTANTS Names,        \* alias names, e.g. {"a", "b", "c"}
          Others,       \* tokens that are never aliases, e.g. {"x", "-f"}
          Decs,         \* decorator alias names, e.g. {"@d1", "@d2"}
          MaxBody,      \* longest list body
          Deviations

DevNames == {}

VARIABLES table,   \* [Names -> Body \cup {NoBody}]
          st,      \* the expansion in progress (or Idle)
          act, res

vars == <<table, st, act, res>>
view == <<table, st>>

NoBody == [kind |-> "none", toks |-> <<>>]
Tokens == Names \cup Others
ListBodies == UNION { { ds \o ts : ds \in {<<>>} \cup {<<d>> : d \in Decs} \cup {<<d, e>> : d \in Decs, e \in Decs},
                                   ts \in {t \in [1..n -> Tokens] : t[1] \in Names \cup {"x"}} } : n \in 1..MaxBody }
Bodies == {[kind |-> "list", toks |-> t] : t \in ListBodies}
            \cup {[kind |-> "fn", toks |-> <<>>]}
            \cup {[kind |-> "rc", toks |-> t] : t \in {<<n>> : n \in Names} \cup {<<n, "-r">> : n \in Names}}

Defined(n) == n \in Names /\ table[n].kind # "none"
IsDec(t) == t \in Decs

Idle == [phase |-> "idle"]

\* ---------------------------- one recursion level of eval_alias --------------------------
\* expansion state: value (a body), seen, acc (accumulated trailing args), decs, out
\* strip leading decorators of a list value (only when it has more than one token)
RECURSIVE LeadDecs(_)
LeadDecs(ts) == IF ts # <<>> /\ IsDec(Head(ts)) THEN <<Head(ts)>> \o LeadDecs(Tail(ts)) ELSE <<>>
Strip(ts) == IF Len(ts) > 1
             THEN LET d == LeadDecs(ts) IN [decs |-> d, toks |-> SubSeq(ts, Len(d) + 1, Len(ts))]
             ELSE [decs |-> <<>>, toks |-> ts]

Fn(n) == "<fn:" \o n \o ">"

\* the documented expansion (~ and $VAR) that the resolver applies to the words of an alias
\* *value* - never to the arguments the user typed
Exp(t) == CASE t = "~" -> "<HOME>"
            [] t = "$VERIFVAR" -> "<VAR>"
            [] t = "~/x y" -> "<HOME>/x y"
            [] OTHER -> t
ExpAll(ts) == [i \in 1..Len(ts) |-> Exp(ts[i])]

\* value = [kind, toks, name]; returns the next expansion state
StepOf(s) ==
  LET v == s.value IN
  IF v.kind = "fn" THEN [s EXCEPT !.phase = "done", !.out = <<Fn(v.name)>> \o s.acc]
  ELSE
    LET stripped == IF v.kind = "list" THEN Strip(v.toks) ELSE [decs |-> <<>>, toks |-> v.toks]
        decs2 == s.decs \o stripped.decs
        \* a return-command alias is called with the accumulated args and returns toks \o args
        toks == IF v.kind = "rc" THEN stripped.toks \o s.acc ELSE stripped.toks
        acc == IF v.kind = "rc" THEN <<>> ELSE s.acc
    IN IF toks = <<>> THEN [s EXCEPT !.phase = "done", !.out = acc, !.decs = decs2]
       ELSE LET tok == Exp(Head(toks))  rest == ExpAll(Tail(toks)) IN
            IF tok \in s.seen \/ ~Defined(tok) \/ (Defined(tok) /\ table[tok].kind = "dec")
            THEN [s EXCEPT !.phase = "done", !.out = <<tok>> \o rest \o acc, !.decs = decs2]
            ELSE [s EXCEPT !.seen = s.seen \cup {tok}, !.acc = rest \o acc, !.decs = decs2,
                           !.value = [kind |-> table[tok].kind, toks |-> table[tok].toks, name |-> tok],
                           !.depth = s.depth + 1]

Begin(cmd) ==   \* cmd = <<name>> \o user args ; only called when the name is an alias
  [phase |-> "expanding", cmd |-> cmd, seen |-> {Head(cmd)}, acc |-> Tail(cmd), decs |-> <<>>, out |-> <<>>, depth |-> 1,
   value |-> [kind |-> table[Head(cmd)].kind, toks |-> table[Head(cmd)].toks, name |-> Head(cmd)]]

RECURSIVE Run(_)
Run(s) == IF s.phase = "done" THEN s ELSE Run(StepOf(s))
\* the reference result of Aliases.get([name] \o args): [out, decs] or "absent"
Resolve(cmd) == IF Defined(Head(cmd)) THEN LET r == Run(Begin(cmd)) IN [found |-> TRUE, out |-> r.out, decs |-> r.decs]
                ELSE [found |-> FALSE, out |-> <<>>, decs |-> <<>>]

\* ---------------------------- actions ----------------------------------------------------
Cmds == {<<n>> : n \in Names} \cup {<<n, "u1">> : n \in Names} \cup {<<n, "u1", "u2">> : n \in Names}
NoRes == [found |-> FALSE, out |-> <<>>, decs |-> <<>>]

Define(n, b) == /\ st = Idle /\ n \in Names /\ b \in Bodies
                /\ table' = [table EXCEPT ![n] = b]
                /\ act' = [cmd |-> "define", name |-> n, body |-> b, line |-> <<>>] /\ res' = NoRes
                /\ UNCHANGED st
Undefine(n) == /\ st = Idle /\ Defined(n)
             /\ table' = [table EXCEPT ![n] = NoBody]
             /\ act' = [cmd |-> "remove", name |-> n, body |-> NoBody, line |-> <<>>] /\ res' = NoRes
             /\ UNCHANGED st
\* resolution, step by step (for the termination argument) ...
StartResolve(c) == /\ st = Idle /\ Defined(Head(c))
                   /\ st' = Begin(c)
                   /\ act' = [cmd |-> "begin", name |-> Head(c), body |-> NoBody, line |-> c] /\ res' = NoRes
                   /\ UNCHANGED table
ExpandStep == /\ st # Idle /\ st.phase = "expanding"
              /\ st' = StepOf(st)
              /\ act' = [cmd |-> "step", name |-> st.value.name, body |-> NoBody, line |-> st.cmd] /\ res' = NoRes
              /\ UNCHANGED table
Finish == /\ st # Idle /\ st.phase = "done"
          /\ st' = Idle
          /\ act' = [cmd |-> "resolve", name |-> Head(st.cmd), body |-> NoBody, line |-> st.cmd]
          /\ res' = [found |-> TRUE, out |-> st.out, decs |-> st.decs]
          /\ UNCHANGED table
\* ... and as one atomic query (what a recorded execution shows)
Query(c) == /\ st = Idle
            /\ act' = [cmd |-> "query", name |-> Head(c), body |-> NoBody, line |-> c]
            /\ res' = Resolve(c)
            /\ UNCHANGED <<table, st>>

Init == /\ table = [n \in Names |-> NoBody] /\ st = Idle
        /\ act = [cmd |-> "init", name |-> "", body |-> NoBody, line |-> <<>>] /\ res = NoRes

Next == \/ \E n \in Names, b \in Bodies : Define(n, b)
        \/ \E n \in Names : Undefine(n)
        \/ \E c \in Cmds : StartResolve(c)
        \/ ExpandStep \/ Finish

Spec == Init /\ [][Next]_vars /\ WF_vars(ExpandStep) /\ WF_vars(Finish)

\* ---------------------------- the property -----------------------------------------------
\* every resolution terminates: liveness, plus the variant that proves it
Terminates == (st # Idle) ~> (st = Idle)
DepthBounded == st # Idle => st.depth <= Cardinality(Names) /\ Cardinality(st.seen) = st.depth

\* each alias is expanded at most once per chain
EachOnce == st # Idle => st.value.name \in st.seen

UsesRC(s) == \E n \in s.seen : table[n].kind = "rc"
\* the user's arguments come last, in their original order (a return-command alias receives
\* them and may place them itself)
ArgsPreserved == (st # Idle /\ st.phase = "done") => IsSuffix(Tail(st.cmd), st.out)

\* the step-wise expansion and the atomic reference agree
StepwiseIsReference == (st # Idle /\ st.phase = "done") =>
                         LET r == Resolve(st.cmd) IN r.out = st.out /\ r.decs = st.decs
=============================================================================
