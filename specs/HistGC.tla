------------------------------ MODULE HistGC ------------------------------
(* C14: history garbage collection only ever discards the oldest, unlocked history.

   State: the collection of JSON history files of a data directory and the rows of the SQLite
   table.  A file is [id, age, ncmds, bytes, lock, kind]:
     age    seconds since the session closed (distinct per file; larger = older)
     lock   "no" | "live" (a running session) | "stale" (locked before the last reboot)
     kind   "ok" | "empty" (zero-length file) | "corrupt" (unparsable)
   GC(unit, limit, force) is one run of `history gc`.  The result is defined declaratively
   (largest newest suffix that fits); the properties below are what C14 states. *)
EXTENDS Naturals, Integers, Sequences, FiniteSets, SequencesExt, FiniteSetsExt, TLC

CONSTANTS MaxFiles, Ages, Cmds, Bytes, Limits, Deviations

DevNames == {"Dev_FilesLimitZero", "Dev_SqliteKeepZero"}

VARIABLES files, rows, act, res
vars == <<files, rows, act, res>>
view == <<files, rows>>

Units == {"commands", "files", "s", "b"}

\* ---------------------------- selection ---------------------------------------------------
Candidate(f) == f.kind # "corrupt" /\ f.lock # "live"
Cands(fs) == {f \in fs : Candidate(f)}
\* oldest first
OldestFirst(fs) == SortSeq(SetToSeq(fs), LAMBDA a, b : a.age > b.age)

Weight(f, unit) == CASE unit = "commands" -> (IF f.kind = "empty" THEN 0 ELSE f.ncmds)
                     [] unit = "b" -> (IF f.kind = "empty" THEN 0 ELSE f.bytes)
                     [] unit = "files" -> 1
                     [] OTHER -> 0
RECURSIVE SumW(_, _)
SumW(s, unit) == IF s = <<>> THEN 0 ELSE Weight(Head(s), unit) + SumW(Tail(s), unit)
Newest(s, k) == SubSeq(s, Len(s) - k + 1, Len(s))
Oldest(s, k) == SubSeq(s, 1, k)

\* number of newest candidates kept
KeepCount(s, unit, limit) ==
  IF unit = "s" THEN Cardinality({i \in 1..Len(s) : s[i].age < limit})
  ELSE Max({k \in 0..Len(s) : SumW(Newest(s, k), unit) <= limit})

\* how much would be discarded, in the unit of the limit
Over(s, k, unit, limit) ==
  IF unit = "s" THEN (IF k = Len(s) THEN 0 ELSE s[1].age - limit)
  ELSE SumW(Oldest(s, Len(s) - k), unit)

Selection(fs, unit, limit, force) ==
  LET s == OldestFirst(Cands(fs))
      k == KeepCount(s, unit, limit)
      over == Over(s, k, unit, limit)
      refused == ~force /\ over >= limit /\ k < Len(s)
  IN [refused |-> refused, over |-> over,
      removed |-> IF refused THEN {} ELSE Range(Oldest(s, Len(s) - k))]

\* ---------------------------- actions ----------------------------------------------------
FileRecs == [id : 1..MaxFiles, age : Ages, ncmds : Cmds, bytes : Bytes,
             lock : {"no", "live", "stale"}, kind : {"ok", "empty", "corrupt"}]
NoRes == [refused |-> FALSE, removed |-> {}, dev |-> ""]

AddFile(f) == /\ f \in FileRecs
              /\ Cardinality(files) < MaxFiles
              /\ f.id = Cardinality(files) + 1
              /\ \A g \in files : g.age # f.age
              /\ (f.kind = "corrupt" => f.lock = "no")
              /\ files' = files \cup {f}
              /\ act' = [cmd |-> "add", unit |-> "", limit |-> 0, force |-> FALSE] /\ res' = NoRes
              /\ UNCHANGED rows

GC(unit, limit, force) ==
  LET sel == Selection(files, unit, limit, force) IN
  /\ act' = [cmd |-> "gc", unit |-> unit, limit |-> limit, force |-> force]
  /\ UNCHANGED rows
  /\ \/ /\ files' = files \ sel.removed
        /\ res' = [refused |-> sel.refused, removed |-> {f.id : f \in sel.removed}, dev |-> ""]
     \/ \* files[:-0] keeps everything: with `0 files` nothing is removed even when forced
        /\ "Dev_FilesLimitZero" \in Deviations /\ unit = "files" /\ limit = 0 /\ sel.removed # {}
        /\ files' = files
        /\ res' = [refused |-> FALSE, removed |-> {}, dev |-> "Dev_FilesLimitZero"]

\* SQLite: rows are timestamps (distinct); keep the newest `limit`
AddRow(t) == /\ t \in Ages /\ t \notin rows /\ Cardinality(rows) < MaxFiles
             /\ rows' = rows \cup {t}
             /\ act' = [cmd |-> "addrow", unit |-> "", limit |-> t, force |-> FALSE] /\ res' = NoRes
             /\ UNCHANGED files
NewestRows(rs, n) == {t \in rs : Cardinality({u \in rs : u > t}) < n}
SqlGC(limit) ==
  /\ act' = [cmd |-> "sqlgc", unit |-> "commands", limit |-> limit, force |-> FALSE]
  /\ UNCHANGED files
  /\ \/ rows' = NewestRows(rows, limit) /\ res' = NoRes
     \/ /\ "Dev_SqliteKeepZero" \in Deviations /\ limit = 0 /\ rows # {}
        /\ rows' = rows /\ res' = [NoRes EXCEPT !.dev = "Dev_SqliteKeepZero"]

Init == files = {} /\ rows = {} /\ act = [cmd |-> "init", unit |-> "", limit |-> 0, force |-> FALSE] /\ res = NoRes

\* the two back ends are independent: a behaviour exercises one of them
Next == \/ rows = {} /\ \E f \in FileRecs : AddFile(f)
        \/ rows = {} /\ \E u \in Units, l \in Limits, fo \in BOOLEAN : GC(u, l, fo)
        \/ files = {} /\ \E t \in Ages : AddRow(t)
        \/ files = {} /\ \E l \in Limits : SqlGC(l)

Spec == Init /\ [][Next]_vars

\* ---------------------------- the property -----------------------------------------------
IsGC == act'.cmd = "gc"
Removed == files \ files'
Kept == Cands(files')

\* never the file of a live session, never an unreadable one
NeverLive == [][IsGC => \A f \in Removed : f.lock # "live" /\ f.kind # "corrupt"]_vars
\* strictly oldest first: everything removed is older than every candidate kept
OldestFirstOnly == [][IsGC => \A r \in Removed, k \in Kept : r.age > k.age]_vars
\* what is kept fits the limit ...
Fits(fs, unit, limit) == IF unit = "s" THEN \A f \in fs : f.age < limit
                         ELSE SumW(SetToSeq(fs), unit) <= limit
KeptFits == [][(IsGC /\ ~res'.refused) => Fits(Kept, act'.unit, act'.limit)]_vars
\* ... and is the largest such set: keeping the youngest removed file as well would not fit
Maximal == [][(IsGC /\ Removed # {}) =>
               LET y == CHOOSE r \in Removed : \A q \in Removed : q.age >= r.age
               IN ~Fits(Kept \cup {y}, act'.unit, act'.limit)]_vars
\* nothing is deleted when the history is within the limit
NothingIfWithin == [][(IsGC /\ Fits(Cands(files), act'.unit, act'.limit)) => Removed = {}]_vars
\* refusal: unless forced, no run that would discard at least as much as the limit
RefusalRule == [][(IsGC /\ ~act'.force /\ Removed # {}) =>
                    Selection(files, act'.unit, act'.limit, TRUE).over < act'.limit]_vars
\* SQLite keeps exactly the newest N rows
SqlKeepsNewest == [][act'.cmd = "sqlgc" =>
                       /\ rows' \subseteq rows /\ Cardinality(rows') = Min({act'.limit, Cardinality(rows)})
                       /\ \A d \in rows \ rows', k \in rows' : d < k]_vars
=============================================================================
