---------------------------- MODULE ArgAssembly ----------------------------
(* C04: arguments reach the command exactly as written - no hidden re-splitting.

   A command line is a sequence of argument atoms.  An atom is [kind, cls]:
     kind  "word" (bare word), "quoted" ('..' / ".."), "raw" (r'..'), "triple" ('''..'''),
           "fstr" (f'{v}': a non-raw literal, expanded like '..' after the field is substituted), "inj1" (@(s)), "injN" (@([s, t])),
           "injgen" (@(x for x in [s, t])), "glued" (pre@(s)post), "envvar" ($V holding s),
           "macro" (the rest of the line after `cmd!`)
     cls   the payload class of the string s: "plain", "space", "star", "dollar" ($VAR text),
           "tilde", "quotes", "bslash" (trailing backslash), "newline", "brace", "empty", "nonascii"
   Expected(atoms) is the argv the command must receive, as a sequence of [atom, part, how] where
   how = "verbatim" (the string itself / its Python value) or "expanded" (the documented $VAR / ~
   expansion of a non-raw literal applied).  The replay concretises classes with pool strings. *)
EXTENDS Naturals, Sequences, FiniteSets, TLC

CONSTANTS MaxAtoms, Kinds, Classes, Deviations

DevNames == {"Dev_GluedInjectExpanded"}

VARIABLES act, res
vars == <<act, res>>

Atoms == {a \in [kind : Kinds, cls : Classes] :
            \* a bare word cannot hold characters that end or change the word
            /\ (a.kind = "word" => a.cls \in {"plain", "star", "nonascii"})
            \* the macro text is taken without its surrounding blanks and must be bracket-balanced
            /\ (a.kind = "macro" => a.cls \in {"plain", "star", "dollar", "quotes", "nonascii"})
            \* (what happens to $VAR / ~ text *inside the value* of an environment variable is left open)
            /\ (a.kind = "envvar" => a.cls \notin {"dollar", "tilde"})}

\* expansion only changes strings that contain something to expand
Expands(cls) == cls \in {"dollar", "tilde"}
Arg(i, p, how) == [atom |-> i, part |-> p, how |-> how]

Contribution(i, a, dev) ==
  CASE a.kind \in {"word", "raw", "inj1", "envvar", "macro"} -> <<Arg(i, 1, "verbatim")>>
    [] a.kind \in {"quoted", "triple", "fstr"} -> <<Arg(i, 1, IF Expands(a.cls) THEN "expanded" ELSE "verbatim")>>
    [] a.kind \in {"injN", "injgen"} -> <<Arg(i, 1, "verbatim"), Arg(i, 2, "verbatim")>>
    [] a.kind = "glued" -> <<Arg(i, 1, IF i \in dev THEN "expanded" ELSE "verbatim")>>
    [] OTHER -> <<>>

RECURSIVE Expected(_, _, _)
Expected(atoms, i, dev) == IF i > Len(atoms) THEN <<>> ELSE Contribution(i, atoms[i], dev) \o Expected(atoms, i + 1, dev)

Lines == UNION {[1..n -> Atoms] : n \in 1..MaxAtoms}
\* a macro consumes the whole rest of the line: it only occurs alone
WellFormed(l) == \A i \in 1..Len(l) : l[i].kind = "macro" => Len(l) = 1
NoLine == <<>>
Run(l) == /\ act = NoLine /\ WellFormed(l) /\ act' = l
          /\ \/ res' = [argv |-> Expected(l, 1, {}), dev |-> ""]
             \/ \* some of the glued injections whose value holds $VAR / ~ text get expanded
                /\ "Dev_GluedInjectExpanded" \in Deviations
                /\ \E E \in SUBSET {i \in 1..Len(l) : l[i].kind = "glued" /\ Expands(l[i].cls)} :
                     E # {} /\ res' = [argv |-> Expected(l, 1, E), dev |-> "Dev_GluedInjectExpanded"]
Init == act = NoLine /\ res = [argv |-> <<>>, dev |-> ""]
Next == \E l \in Lines : Run(l)
Spec == Init /\ [][Next]_vars

\* ---------------------------- the property -----------------------------------------------
\* order is preserved: the arguments of atom i come before those of atom j > i, parts in order
Ordered == [][\A p, q \in 1..Len(res'.argv) : p < q =>
                 (res'.argv[p].atom < res'.argv[q].atom \/ (res'.argv[p].atom = res'.argv[q].atom /\ res'.argv[p].part < res'.argv[q].part))]_vars
\* one argument per word / literal / injected string, two for a two-element injection - never re-split
Multiplicity == [][\A i \in 1..Len(act') :
                    Cardinality({p \in 1..Len(res'.argv) : res'.argv[p].atom = i}) = (IF act'[i].kind \in {"injN", "injgen"} THEN 2 ELSE 1)]_vars
\* injected values, raw strings, environment values and macro text arrive verbatim
VerbatimKinds == [][\A p \in 1..Len(res'.argv) :
                     act'[res'.argv[p].atom].kind \in {"word", "raw", "inj1", "injN", "injgen", "glued", "envvar", "macro"} => res'.argv[p].how = "verbatim"]_vars
=============================================================================
