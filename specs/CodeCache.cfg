SPECIFICATION Spec
CONSTANTS
  MaxClock = 2
  Texts = {"t1"}
  Deviations = {}
VIEW view
PROPERTY FilesSeparate
PROPERTY Fresh
PROPERTY Robust
PROPERTY SameAsUncached
PROPERTY CodeSameAsUncached
PROPERTY OffMeansOff
CHECK_DEADLOCK FALSE
