SPECIFICATION Spec
CONSTANTS
  Flushers = {"F1", "F2"}
  Readers = {"R1"}
  Deviations = {}
INVARIANT NoStuck
PROPERTY Served
CHECK_DEADLOCK FALSE
