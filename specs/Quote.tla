------------------------------- MODULE Quote -------------------------------
(* C18: tab-completing a path inserts text that xonsh reads back as exactly one argument equal to
   the name.  A name is a sequence of alphabet symbols; the user has opened no quote, ' , " , r' or
   r" before asking for completions.

   The module states the property as the judgement Complete(name, open) -> ok, and - as the
   reference that shows the property is satisfiable - which quoting styles *can* denote a name under
   xonsh's reading rules (SafeStyles).  Behaviour of the pinned completer that contradicts the
   property is confined to named Dev_* disjuncts whose enabling conditions are features of the name
   and of the opening style; anything else the real completer gets wrong is explained by no action. *)
EXTENDS Naturals, Integers, Sequences, FiniteSets, TLC

CONSTANTS Alphabet, MaxLen, Deviations

Opens == {"none", "sq", "dq", "rsq", "rdq"}
Ctrl  == {"nl", "tab", "cr"}
\* symbols that force quoting when the text is not inside quotes
Special == {"sp", "sq", "dq", "dl", "bs", "nl", "tab", "cr", "star", "qm", "hash", "lb", "rb", "amp", "semi", "pipe", "gt", "lt",
            "lp", "rp", "lk", "rk", "comma", "bq", "and"}

VARIABLES name, open, res
vars == <<name, open, res>>

Has(n, s) == \E i \in 1..Len(n) : n[i] = s
HasAny(n, S) == \E i \in 1..Len(n) : n[i] \in S
EndsWith(n, s) == Len(n) > 0 /\ n[Len(n)] = s
\* `$` followed by something that continues a variable reference
DollarRef(n) == \E i \in 1..(Len(n) - 1) : n[i] = "dl" /\ n[i + 1] \in {"a", "b", "lb"}

(* ---- which styles can denote the name (reference; xonsh reading rules) ---------------------- *)
\* bare word: nothing special, no macro marker, does not start like an option-less tilde/hash form
BareOK(n) == ~HasAny(n, Special) /\ ~Has(n, "bang") /\ n # <<"tilde">> /\ n[1] # "at"
\* raw literal with quote q: cannot hold q, a control character (no escapes), nor end in a backslash
RawOK(n, q) == ~Has(n, q) /\ ~HasAny(n, Ctrl) /\ ~EndsWith(n, "bs")
\* plain literal with quote q: everything can be escaped, but `$name` is expanded after decoding
PlainOK(n, q) == ~DollarRef(n) /\ n # <<"tilde">>
SafeStyles(n) == (IF BareOK(n) THEN {"bare"} ELSE {})
                 \cup {s \in {"rsq"} : RawOK(n, "sq")} \cup {s \in {"rdq"} : RawOK(n, "dq")}
                 \cup {s \in {"sq", "dq"} : PlainOK(n, s)}

(* ---- deviations (open known findings): enabling conditions ---------------------------------- *)
\* k: how many characters of the name were typed after the opening quote; ca: "after" - the closing
\* quote is already in the line after the cursor (what editors with auto-pairing produce), "closed" -
\* the user typed the closing quote and the cursor is right after it, "no" - neither
DevEnabled(d, n, o, k, ca) ==
  CASE d = "Dev_TrailingSpaceStripped" -> EndsWith(n, "sp")
    [] d = "Dev_TrailingBackslash"     -> EndsWith(n, "bs")
    [] d = "Dev_RawOpenControlChar"    -> o \in {"rsq", "rdq"} /\ HasAny(n, Ctrl)
    \* a raw literal - opened by the user, or forced by `$` / backslash in the name - in the quote
    \* style the user opened cannot escape that same quote
    [] d = "Dev_RawOpenSameQuote"      -> \/ (Has(n, "sq") /\ (o = "rsq" \/ (o = "sq" /\ (Has(n, "dl") \/ Has(n, "bs")))))
                                          \/ (Has(n, "dq") /\ (o = "rdq" \/ (o = "dq" /\ (Has(n, "dl") \/ Has(n, "bs")))))
    \* inserted bare right after `cmd `, a name starting with `=` or `:` turns the line into Python
    [] d = "Dev_LeadingAssignBare"     -> /\ o \in {"none", "sq", "dq"}
                                          /\ \/ n[1] \in {"eq", "colon"}
                                             \/ (IF Len(n) >= 2 THEN n[2] = "eq" /\ n[1] \in {"dash", "at", "pct", "caret"} ELSE FALSE)   \* `c0 -=x` is an augmented assignment
    \* a `~` at the start of the name or right after `=` is expanded to the home directory when the
    \* name is inserted in plain (non-raw) quotes
    [] d = "Dev_TildeExpandedInQuotes" -> \E i \in 1..Len(n) : n[i] = "tilde" /\ (IF i = 1 THEN TRUE ELSE n[i - 1] = "eq")
    [] d = "Dev_BangUnquoted"          -> Has(n, "bang") /\ o \in {"none", "sq", "dq"}
    [] d = "Dev_MixedQuotesRaw"        -> Has(n, "sq") /\ Has(n, "dq") /\ (Has(n, "dl") \/ Has(n, "bs"))
    [] d = "Dev_ControlWithDollar"     -> HasAny(n, Ctrl) /\ Has(n, "dl") /\ o \in {"none", "sq", "dq"}
    [] d = "Dev_EmptyQuotesNotContinued" -> ca = "after" /\ k = 0 /\ o # "none"
    \* inside a quote the user opened, a `|` or `;` among the typed characters with more typed text after
    \* it still splits the line for the analyser: only the part after it is taken for the word to complete
    \* (the same for `&&` followed by more typed text, and for the substitution opener `@(` wherever it is typed)
    [] d = "Dev_OpenQuoteSeparatorCutsWord" -> /\ o # "none"
                                               /\ \E i \in 1..Len(n) :
                                                    \/ i < k /\ n[i] \in {"pipe", "semi"}
                                                    \/ (IF i + 1 <= Len(n) THEN n[i] = "amp" /\ n[i + 1] = "amp" /\ i + 1 < k ELSE FALSE)
                                                    \/ (IF i + 1 <= Len(n) THEN n[i] = "at" /\ n[i + 1] = "lp" /\ i + 1 <= k ELSE FALSE)
    [] OTHER -> FALSE

\* the analyser: for any text and cursor a context (or none) whose prefix and suffix reproduce the text
\* around the cursor.  feat.inside_op: the cursor splits a multi-character operator token.
AnalyseDevEnabled(d, feat) ==
  CASE d = "Dev_CursorInsideOperatorToken" -> feat.inside_op
    [] OTHER -> FALSE
Analyse(feat, ok) ==
  /\ name = <<>>
  /\ \/ ok /\ res' = [ok |-> TRUE, dev |-> ""]
     \/ \E d \in Deviations : AnalyseDevEnabled(d, feat) /\ ~ok /\ res' = [ok |-> FALSE, dev |-> d]
  /\ name' = <<"a">> /\ open' = "none"

Names == UNION {[1..k -> Alphabet] : k \in 1..MaxLen}

Init == name = <<>> /\ open = "none" /\ res = [ok |-> TRUE, dev |-> ""]

Complete(n, o, k, ca) ==
  /\ name = <<>> /\ Len(n) >= 1 /\ o \in Opens /\ k \in 0..Len(n) /\ ca \in {"no", "after", "closed"} /\ (ca # "no" => o # "none")
  /\ name' = n /\ open' = o
  /\ \/ res' = [ok |-> TRUE, dev |-> ""]
     \/ \E d \in Deviations : DevEnabled(d, n, o, k, ca) /\ res' = [ok |-> FALSE, dev |-> d]

Next == \/ name = <<>> /\ \E io \in BOOLEAN, ok \in BOOLEAN : Analyse([inside_op |-> io], ok)
        \/ name = <<>> /\ \E n \in Names, o \in Opens, k \in 0..2, ca \in {"no", "after", "closed"} : Complete(n, o, k, ca)
Spec == Init /\ [][Next]_vars

(* ---- properties -------------------------------------------------------------------------- *)
ReadsBack == name # <<>> => res.ok
\* the property is satisfiable: every name has a style that denotes it, except names that need both
\* an escape (control character) and protection from `$` expansion - no single literal does both
Satisfiable == name # <<>> => (SafeStyles(name) # {} \/ (DollarRef(name) /\ (HasAny(name, Ctrl) \/ EndsWith(name, "bs") \/ (Has(name, "sq") /\ Has(name, "dq")))))
=============================================================================
