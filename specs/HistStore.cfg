SPECIFICATION Spec
CONSTANTS
  Texts = {"a", "b"}
  MaxLen = 4
  BufSizes = {1, 2, 3}
  Deviations = {}
VIEW view
INVARIANT BufferBounded
PROPERTY AppendOnly
PROPERTY ReadIsRef
CHECK_DEADLOCK FALSE
