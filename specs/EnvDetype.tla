----------------------------- MODULE EnvDetype -----------------------------
(* C10: the typed environment survives the trip to child processes and back.

   val[k] is the current typed value of variable k, abstracted to a version number (9 = not set):  S a string, B a boolean, P a path list (mutable: its version is the number of
   entries appended in place), M a variable masked with DELETE_VAR for one command.
   `cache` is the cached string mapping of Env.detype(); `held` says that user code keeps a
   reference to P's list object.  Launch is one child process start (swap of the per-command
   prefix + detype). *)
EXTENDS Naturals, Sequences, FiniteSets, TLC

CONSTANTS MaxVer, Deviations

DevNames == {"Dev_StaleAfterHeldMutation"}

VARIABLES val, cache, held, qrule, act, res
vars == <<val, cache, held, qrule, act, res>>
view == <<val, cache, held, qrule>>

Keys == {"S", "B", "P", "U", "R", "Q"}
Unset == 9                      \* "not set"
NoCache == [k \in Keys |-> 8]     \* the cache is invalid
Vers == 0..MaxVer
Lab(cmd, k, v) == [cmd |-> cmd, k |-> k, v |-> v]
NoRes == [child |-> NoCache, back |-> TRUE, dev |-> ""]

\* what a child must see: the values at launch time
Current == [k \in Keys |-> val[k]]

Set(k, v) == /\ v \in Vers /\ (k \in {"B", "R"} => v <= 1)
             \* Q is converted according to the rule in force at the time of the assignment
             /\ val' = [val EXCEPT ![k] = IF k = "Q" /\ ~qrule THEN v + 10 ELSE v] /\ cache' = NoCache
             /\ UNCHANGED qrule
             /\ held' = IF k = "P" THEN FALSE ELSE held     \* a new list object replaces the held one
             /\ act' = Lab("set", k, v) /\ res' = NoRes
\* (deleting one name of a mirrored pair is not offered: the property does not say what becomes of the other)
Del(k) == /\ val[k] # Unset /\ k # "R"
          /\ val' = [val EXCEPT ![k] = Unset] /\ cache' = NoCache
          /\ held' = IF k = "P" THEN FALSE ELSE held
          /\ UNCHANGED qrule
          /\ act' = Lab("del", k, 0) /\ res' = NoRes
\* p = $P : reading a mutable value hands out a reference and drops the cache
ReadRef == /\ val["P"] # Unset
           /\ held' = TRUE /\ cache' = NoCache
           /\ act' = Lab("readref", "P", 0) /\ res' = NoRes /\ UNCHANGED <<val, qrule>>
\* $P.append(x): read through the environment, then mutate in place
MutateThroughEnv == /\ val["P"] # Unset /\ val["P"] < MaxVer
                    /\ val' = [val EXCEPT !["P"] = @ + 1] /\ cache' = NoCache
                    /\ act' = Lab("mutenv", "P", 0) /\ res' = NoRes /\ UNCHANGED <<held, qrule>>
\* p.append(x) through the retained reference: the environment is not told
MutateHeld == /\ held /\ val["P"] # Unset /\ val["P"] < MaxVer
              /\ val' = [val EXCEPT !["P"] = @ + 1]
              /\ act' = Lab("mutheld", "P", 0) /\ res' = NoRes /\ UNCHANGED <<cache, held, qrule>>

\* the name-pattern rule is edited in place (`$XONSH_ENV_PATTERN_PATH.exclude.append('Q')` / remove):
\* values already stored keep their type, later assignments follow the new rule
\* (offered only while Q is unset: re-typing a value that is already stored is outside this model)
ToggleRule == /\ val["Q"] = Unset
              /\ qrule' = ~qrule
              /\ act' = Lab("togglerule", "Q", 0) /\ res' = NoRes /\ UNCHANGED <<val, cache, held>>

\* a child process is started, optionally with a per-command prefix `$S=v cmd` or a mask
Launch(pk, pv) ==
  /\ pk \in {"", "S", "B", "R"} /\ pv \in Vers \cup {Unset} /\ (pk = "" => pv = 0) /\ (pk = "B" => pv \in {0, 1, Unset}) /\ (pk = "R" => pv \in {0, 1})
  /\ LET want == [k \in Keys |-> IF k = pk THEN pv ELSE val[k]] IN
     /\ act' = Lab("launch", pk, pv)
     /\ UNCHANGED <<val, held, qrule>>
     /\ \/ res' = [child |-> want, back |-> TRUE, dev |-> ""]
           /\ cache' = IF pk = "" THEN want ELSE NoCache
        \/ /\ "Dev_StaleAfterHeldMutation" \in Deviations
           /\ pk = "" /\ cache # NoCache /\ cache # want
           /\ res' = [child |-> cache, back |-> FALSE, dev |-> "Dev_StaleAfterHeldMutation"]
           /\ cache' = cache

Init == /\ val = [k \in Keys |-> IF k = "P" THEN 0 ELSE Unset] /\ cache = NoCache /\ held = FALSE /\ qrule = TRUE
        /\ act = Lab("init", "", 0) /\ res = NoRes

Next == \/ \E k \in Keys, v \in Vers : Set(k, v)
        \/ \E k \in Keys : Del(k)
        \/ ReadRef \/ MutateThroughEnv \/ MutateHeld \/ ToggleRule
        \/ \E pk \in {"", "S", "B", "R"}, pv \in Vers \cup {Unset} : Launch(pk, pv)

Spec == Init /\ [][Next]_vars

\* ---------------------------- the property -----------------------------------------------
\* the mapping handed to a child reflects the values at launch time (prefix applied, masked
\* and unset entries omitted)
\* (action properties: act/res are hidden by the VIEW, so they must be checked per transition)
ChildSeesCurrent ==
  [][act'.cmd = "launch" => res'.child = [k \in Keys |-> IF k = act'.k THEN act'.v ELSE val'[k]]]_vars
\* ... and a nested xonsh reads the same typed values back
RoundTrip == [][act'.cmd = "launch" => res'.back]_vars
\* a valid cache is never out of date  (the mechanism)
CacheFresh == cache # NoCache => cache = Current
=============================================================================
