----------------------------- MODULE EnvDetype -----------------------------
(* C10: the typed environment survives the trip to child processes and back.

   val[k] is the current typed value of variable k, abstracted to a version number (9 = not set):  S a string, B a boolean, P a path list (mutable: its version is the number of
   entries appended in place), M a variable masked with DELETE_VAR for one command.
   `cache` is the cached string mapping of Env.detype(); `held` says that user code keeps a
   reference to P's list object.  Launch is one child process start (swap of the per-command
   prefix + detype). *)
EXTENDS Naturals, Sequences, FiniteSets, TLC

CONSTANTS MaxVer, Deviations

DevNames == {"Dev_StaleAfterHeldMutation"}

VARIABLES val, cache, held, act, res
vars == <<val, cache, held, act, res>>
view == <<val, cache, held>>

Keys == {"S", "B", "P"}
Unset == 9                      \* "not set"
NoCache == [k \in Keys |-> 8]     \* the cache is invalid
Vers == 0..MaxVer
Lab(cmd, k, v) == [cmd |-> cmd, k |-> k, v |-> v]
NoRes == [child |-> NoCache, back |-> TRUE, dev |-> ""]

\* what a child must see: the values at launch time
Current == [k \in Keys |-> val[k]]

Set(k, v) == /\ v \in Vers /\ (k = "B" => v <= 1)
             /\ val' = [val EXCEPT ![k] = v] /\ cache' = NoCache
             /\ held' = IF k = "P" THEN FALSE ELSE held     \* a new list object replaces the held one
             /\ act' = Lab("set", k, v) /\ res' = NoRes
Del(k) == /\ val[k] # Unset
          /\ val' = [val EXCEPT ![k] = Unset] /\ cache' = NoCache
          /\ held' = IF k = "P" THEN FALSE ELSE held
          /\ act' = Lab("del", k, 0) /\ res' = NoRes
\* p = $P : reading a mutable value hands out a reference and drops the cache
ReadRef == /\ val["P"] # Unset
           /\ held' = TRUE /\ cache' = NoCache
           /\ act' = Lab("readref", "P", 0) /\ res' = NoRes /\ UNCHANGED val
\* $P.append(x): read through the environment, then mutate in place
MutateThroughEnv == /\ val["P"] # Unset /\ val["P"] < MaxVer
                    /\ val' = [val EXCEPT !["P"] = @ + 1] /\ cache' = NoCache
                    /\ act' = Lab("mutenv", "P", 0) /\ res' = NoRes /\ UNCHANGED held
\* p.append(x) through the retained reference: the environment is not told
MutateHeld == /\ held /\ val["P"] # Unset /\ val["P"] < MaxVer
              /\ val' = [val EXCEPT !["P"] = @ + 1]
              /\ act' = Lab("mutheld", "P", 0) /\ res' = NoRes /\ UNCHANGED <<cache, held>>

\* a child process is started, optionally with a per-command prefix `$S=v cmd` or a mask
Launch(pk, pv) ==
  /\ pk \in {"", "S", "B"} /\ pv \in Vers \cup {Unset} /\ (pk = "" => pv = 0) /\ (pk = "B" => pv \in {0, 1, Unset})
  /\ LET want == [k \in Keys |-> IF k = pk THEN pv ELSE val[k]] IN
     /\ act' = Lab("launch", pk, pv)
     /\ UNCHANGED <<val, held>>
     /\ \/ res' = [child |-> want, back |-> TRUE, dev |-> ""]
           /\ cache' = IF pk = "" THEN want ELSE NoCache
        \/ /\ "Dev_StaleAfterHeldMutation" \in Deviations
           /\ pk = "" /\ cache # NoCache /\ cache # want
           /\ res' = [child |-> cache, back |-> TRUE, dev |-> "Dev_StaleAfterHeldMutation"]
           /\ cache' = cache

Init == /\ val = [k \in Keys |-> IF k = "P" THEN 0 ELSE Unset] /\ cache = NoCache /\ held = FALSE
        /\ act = Lab("init", "", 0) /\ res = NoRes

Next == \/ \E k \in Keys, v \in Vers : Set(k, v)
        \/ \E k \in Keys : Del(k)
        \/ ReadRef \/ MutateThroughEnv \/ MutateHeld
        \/ \E pk \in {"", "S", "B"}, pv \in Vers \cup {Unset} : Launch(pk, pv)

Spec == Init /\ [][Next]_vars

\* ---------------------------- the property -----------------------------------------------
\* the mapping handed to a child reflects the values at launch time (prefix applied, masked
\* and unset entries omitted)
\* (action properties: act/res are hidden by the VIEW, so they must be checked per transition)
ChildSeesCurrent ==
  [][act'.cmd = "launch" => res'.child = [k \in Keys |-> IF k = act'.k THEN act'.v ELSE val'[k]]]_vars
\* ... and a nested xonsh reads the same typed values back
RoundTrip == [][act'.cmd = "launch" => res'.back]_vars
\* a valid cache is never out of date  (the mechanism)
CacheFresh == cache # NoCache => cache = Current
=============================================================================
