SPECIFICATION Spec
CONSTANTS
  MaxLines = 1
  MaxCol = 1
  BudgetBase = 1
  Deviations = {}
VIEW view
INVARIANT ExitKinds
INVARIANT DepthAtMostTwo
INVARIANT BudgetNeverNegative
INVARIANT SecondPassIsGreedy
PROPERTY VariantDecreases
PROPERTY GreedyMonotone
PROPERTY Termination
CHECK_DEADLOCK FALSE
