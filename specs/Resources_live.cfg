SPECIFICATION Spec
CONSTANTS
  MaxStages = 2
  Deviations = {}
INVARIANT LeavesNothing
INVARIANT NoWriterAfterDrain
INVARIANT OnlyRunningThingsWhileDraining
PROPERTY Terminates
CHECK_DEADLOCK FALSE
