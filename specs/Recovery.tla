------------------------------ MODULE Recovery ------------------------------
(* The subprocess-wrapping recovery loop of Execer._parse_ctx_free (xonsh/execer.py), C03's
   termination clause: "every input yields either a program or a SyntaxError, never a hang or an
   internal exception".

   The parser, the tokenizer and the line rewriting are an ADVERSARY: every parse may succeed or
   fail at any location, every failing line may be classified any way (spans several physical lines,
   blank, comment only, unwrappable, already wrapped, wrappable).  What is modelled exactly is the
   loop's own bookkeeping - the retry budget, the greedy flag, the two passes (non-greedy, then
   greedy from the original input), the one level of recursion for a multi-line logical line - i.e.
   the state the code relies on to terminate.  One action = one trip from a loop head to the next
   loop head (or to the end of the call), which is exactly what the event point at the loop head
   (hook "recovery.iter") lets a trace see.

   Frames: the outer call and, at most, one nested call for a logical line (logical_input=True never
   recurses again).  A frame = [n0: lines of the input the frame was called with, n: lines now,
   pass: 1 (called with greedy=False) or 2 (second attempt, greedy=True), greedy, retries,
   eline/ecol: last error location or -1]. *)
EXTENDS Naturals, Integers, Sequences, FiniteSets, TLC

CONSTANTS MaxLines,      \* lines of the outer input explored by the model checker
          MaxCol,        \* error columns 0..MaxCol
          BudgetBase,    \* 10 in the code (2 * lines + 10 retries per attempt); smaller when model checking
          Deviations

VARIABLES frames,        \* sequence of 1 or 2 frames; the last one is running
          pc,            \* "head" | "done"
          result,        \* "" | "tree" | "SyntaxError"
          iters,         \* loop iterations so far (observation)
          act            \* what the last step did (observation)

vars == <<frames, pc, result, iters, act>>
\* the observation variables do not influence behaviour: the quick configuration hides them
view == <<frames, pc, result>>

Budget(n) == 2 * n + BudgetBase
\* self-test deviation: a loop that forgets to spend its budget (TLC must then refute Termination)
Dec == IF "Dev_NoBudgetDecrement" \in Deviations THEN 0 ELSE 1

NewFrame(n, greedy) ==
  [n0 |-> n, n |-> n, pass |-> IF greedy THEN 2 ELSE 1, greedy |-> greedy, retries |-> Budget(n), eline |-> -1, ecol |-> -1]

Top == frames[Len(frames)]
SetTop(f) == [frames EXCEPT ![Len(frames)] = f]
IsLogical == Len(frames) = 2

Init == /\ \E n \in 1..MaxLines : frames = <<NewFrame(n, FALSE)>>
        /\ pc = "head" /\ result = "" /\ iters = 0 /\ act = "init"

(* --- how much one iteration may lengthen the input -------------------------------------------
   One iteration rewrites one logical line: it inserts one `![` `]` pair (3 characters with the blank) and
   may re-split a continued line (a line-continuation character and a blank per physical line).  The
   bound is deliberately generous; what it excludes is growth *proportional to the input* - an iteration
   that doubles the line turns a bounded loop into exponential work (the defect repaired in f004328). *)
Growth(n) == 16 + 4 * n
LenOK(old, new, n) == new <= old + Growth(n)

(* --- one loop iteration that stays in the same _try_parse -------------------------------- *)
\* the parser failed at a new location and the loop rewrote the input (wrapped a line), deleted a
\* blank / comment-only line, or switched to greedy wrapping
Continue(kind, el, ec, n2, c2, g2) ==
  /\ pc = "head" /\ Top.retries > 0
  \* c2: the column remembered for the no-progress test after a wrap (the code adds the width of the
  \* inserted "![" bracket; the exact shift is the code's business, not part of the termination argument)
  \* n2: lines of the rewritten input - an observation only (dropping a line shrinks it, re-joining
  \* a continuation can grow it); the budget depends on the lines the attempt *started* with
  /\ el \in 1..(Top.n + 1) /\ ec \in 0..MaxCol /\ n2 \in Nat
  \* the no-progress test: an error at the same place as last time ends the attempt
  /\ ~(Top.eline = el /\ Top.ecol \in {ec, ec + 1})
  \* (an unbalanced bracket right at the error makes the same iteration switch to greedy wrapping *and* wrap:
  \*  g2 is the greedy flag afterwards - it can only go from FALSE to TRUE)
  /\ \/ /\ kind = "wrap" /\ c2 \in Nat /\ g2 \in BOOLEAN /\ (Top.greedy => g2)
        /\ frames' = SetTop([Top EXCEPT !.retries = @ - Dec, !.eline = el, !.ecol = c2, !.n = n2, !.greedy = g2])
     \/ /\ kind = "delete"     \* a blank or comment-only line is dropped
        /\ frames' = SetTop([Top EXCEPT !.retries = @ - 1, !.eline = -1, !.ecol = -1, !.n = n2])
     \/ /\ kind = "gogreedy" /\ ~Top.greedy /\ n2 = Top.n
        /\ frames' = SetTop([Top EXCEPT !.retries = @ - 1, !.eline = el, !.ecol = ec, !.greedy = TRUE])
  /\ pc' = "head" /\ result' = "" /\ iters' = iters + 1 /\ act' = kind

\* the failing logical line spans several physical lines: parse it on its own (one nested call)
Recurse(el, ec, m) ==
  /\ pc = "head" /\ ~IsLogical /\ Top.retries > 0
  \* (a one-line input ending in a backslash already spans "two" lines with the empty tail, and the
  \*  joined logical line may even be empty: m is not tied to the number of lines)
  /\ el \in 1..(Top.n + 1) /\ ec \in 0..MaxCol /\ m \in Nat
  /\ ~(Top.eline = el /\ Top.ecol \in {ec, ec + 1})
  /\ frames' = <<[Top EXCEPT !.retries = @ - 1, !.eline = el, !.ecol = ec]>> \o <<NewFrame(m, FALSE)>>
  /\ pc' = "head" /\ result' = "" /\ iters' = iters + 1 /\ act' = "recurse"

(* --- the parse succeeds ------------------------------------------------------------------ *)
\* (el, ec, n2 matter only when a nested call returns: the outer loop then records where the error
\* was, moved past the inserted "![", and continues with the rewritten input of n2 lines)
Ok(el, ec, n2) ==
  /\ pc = "head" /\ Top.retries > 0
  /\ IF IsLogical
       THEN /\ el \in 1..(frames[1].n + 1) /\ ec \in 0..MaxCol /\ n2 \in Nat
            /\ frames' = <<[frames[1] EXCEPT !.eline = el, !.ecol = ec, !.n = n2]>>
            /\ pc' = "head" /\ result' = ""
       ELSE /\ frames' = <<[Top EXCEPT !.retries = @ - 1]>>
            /\ pc' = "done" /\ result' = "tree"
  /\ iters' = iters + 1 /\ act' = "ok"

(* --- the attempt ends with SyntaxError ---------------------------------------------------- *)
\* budget exhausted, no progress, IndentationError, error past the end, non-indented block,
\* nothing left to wrap: all of them `raise`.  After the non-greedy pass the same frame starts again
\* greedily from the input it was called with; after the greedy pass the call fails, which for the
\* nested call makes the *outer* attempt fail in turn.
FailFrame(fs) ==
  \* fs: frames with the failing frame on top; returns the frames (or <<>>) after the raise
  LET RECURSIVE Unwind(_)
      Unwind(s) == IF s = <<>> THEN <<>>
                   ELSE LET f == s[Len(s)] IN
                        IF f.pass = 1 THEN SubSeq(s, 1, Len(s) - 1) \o <<NewFrame(f.n0, TRUE)>>
                        ELSE Unwind(SubSeq(s, 1, Len(s) - 1))
  IN Unwind(fs)

Fail ==
  /\ pc = "head"
  /\ LET after == FailFrame(frames) IN
       IF after = <<>>
         THEN /\ pc' = "done" /\ result' = "SyntaxError"
              /\ frames' = <<[Top EXCEPT !.retries = IF @ > 0 THEN @ - 1 ELSE @]>>
         ELSE /\ pc' = "head" /\ result' = "" /\ frames' = after
  /\ iters' = iters + 1 /\ act' = "fail"

\* the code's only defence against an adversary that always reports "new" locations
MustFail == pc = "head" /\ Top.retries <= 0

Next == \/ \E k \in {"wrap", "delete", "gogreedy"}, el \in 1..(MaxLines + 1), ec \in 0..MaxCol, n2 \in 0..MaxLines, c2 \in 0..(MaxCol + 1), g2 \in BOOLEAN : Continue(k, el, ec, n2, c2, g2)
        \/ \E el \in 1..(MaxLines + 1), ec \in 0..MaxCol, m \in 0..MaxLines : Recurse(el, ec, m)
        \/ \E el \in 1..(MaxLines + 1), ec \in 0..MaxCol, n2 \in 1..MaxLines : Ok(el, ec, n2)
        \/ Fail

Spec == Init /\ [][Next]_vars /\ WF_vars(Next)

(* ------------------------------- properties ------------------------------------------------ *)
\* Lexicographic variant: (frames still to fail, pass, retries).  Encoded as one number.
FrameRank(f) == (2 - f.pass) * (Budget(MaxLines) + 2) + f.retries + 1
Variant == IF pc = "done" THEN 0
           ELSE FrameRank(frames[1]) * (2 * (Budget(MaxLines) + 2) + 2) + (IF IsLogical THEN FrameRank(frames[2]) ELSE 0)

VariantDecreases == [][Variant' < Variant]_vars
Termination == <>(pc = "done")
ExitKinds == pc = "done" => result \in {"tree", "SyntaxError"}
DepthAtMostTwo == Len(frames) \in {1, 2}
BudgetNeverNegative == \A i \in 1..Len(frames) : frames[i].retries >= 0
\* the whole call is bounded by a function of the input size only
Bound == 2 * (Budget(MaxLines) + 1) * (2 * (Budget(MaxLines) + 1) + 1)
BoundedIterations == iters <= Bound
GreedyMonotone == [][(Len(frames') = Len(frames) /\ Top'.pass = Top.pass /\ Top.greedy) => Top'.greedy]_vars
SecondPassIsGreedy == \A i \in 1..Len(frames) : frames[i].pass = 2 => frames[i].greedy
=============================================================================
