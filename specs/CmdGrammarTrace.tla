--------------------------- MODULE CmdGrammarTrace ---------------------------
(* Trace validation for CmdGrammar: each trace is one shape with what the real Execer did with its
   two renderings (equal transformed trees, or - when the trees differ - equal recorded runs). *)
EXTENDS CmdGrammar, Json, IOUtils, TLCExt

Traces == JsonDeserialize(IOEnv.TRACE_FILE)

VARIABLES tid, l, used
tvars == <<vars, tid, l, used>>

TInit == /\ tid \in 1..Len(Traces) /\ l = 1 /\ used = {} /\ Init

TStep ==
  /\ l <= Len(Traces[tid].steps)
  /\ LET e == Traces[tid].steps[l] IN
       /\ Judge(Traces[tid].shape)
       /\ res'.same = e.obs.same /\ res'.flagsame = e.obs.flagsame
       /\ used' = IF res'.dev = "" THEN used ELSE used \cup {res'.dev}
  /\ l' = l + 1 /\ tid' = tid

TSpec == TInit /\ [][TStep]_tvars

Report == /\ PrintT(<<"P", tid, l>>)
          /\ (l > Len(Traces[tid].steps) => PrintT(<<"D", tid, ToJson(used)>>))
=============================================================================
