------------------------------- MODULE Chain -------------------------------
(* C05: chains, exit codes and fail-fast follow the documented truth table.

   A statement is a chain  L1 op1 L2 op2 ... Ln  (op in {"and","or"}; `and` binds tighter, as in
   Python) of leaves; a leaf is one command (or a two-stage pipeline, whose code is its last
   stage's) with: rc (exit code 0/1), form (bare, ![..], $[..], $(..), !(..)), dec (none,
   @error_raise, @error_ignore), kind (whether its text also parses as Python: `c /q` vs `c q`),
   out (whether it prints anything), inner (the command is a callable alias that runs a successful
   command of its own before returning its code).  Flags: raise = $XONSH_SUBPROC_RAISE_ERROR,
   cmdraise = $XONSH_SUBPROC_CMD_RAISE_ERROR.  The statement is followed by a marker statement.
   Run(cfg) evaluates one configuration: the ordered log of leaves that ran, whether the statement
   raised, whether the marker ran. *)
EXTENDS Naturals, Sequences, FiniteSets, TLC

CONSTANTS MaxLeaves, Forms, Decs, Kinds, Deviations

DevNames == {"Dev_CmdRaiseDependsOnParsePath", "Dev_ValueTruthiness", "Dev_LastcmdSeesInner"}

VARIABLES act, res
vars == <<act, res>>

\* (@error_raise inside a lazy !() raises when the object is consumed, not within the statement: left out)
Leaves == {l \in [rc : {0, 1}, form : Forms, dec : Decs, kind : Kinds, out : BOOLEAN, inner : BOOLEAN] : ~(l.form = "object" /\ l.dec = "raise")}
Ops == {"and", "or"}

\* ---------------------------- evaluation ----------------------------------------------------
\* what decides short-circuiting: the exit code (0 is true)
TruthOK(l) == l.rc = 0
\* what the pinned code uses for value-returning capture forms: the Python truthiness of the value
\* ($() -> the captured text, $[] -> None)
TruthDev(l) == CASE l.form = "dollar" -> l.out
                 [] l.form = "dollarsq" -> FALSE
                 [] OTHER -> l.rc = 0
\* a leaf that raises at the command itself, cutting the chain short
RaisesAtLeaf(l, cfg, dev) ==
  /\ l.rc # 0
  /\ \/ l.dec = "raise"
     \/ /\ dev /\ cfg.cmdraise /\ l.kind = "py" /\ l.dec = "none" /\ l.form \in {"bare"} /\ Len(cfg.leaves) > 1

RECURSIVE NextOr(_, _)
\* first position j >= i whose following operator is "or" (0 if none)
NextOr(ops, i) == IF i > Len(ops) THEN 0 ELSE IF ops[i] = "or" THEN i ELSE NextOr(ops, i + 1)

RECURSIVE Eval(_, _, _, _, _)
\* run leaf i; returns [ran, last, cut]  (cut = raised at a leaf)
Eval(cfg, i, ran, truth(_), devRaise) ==
  LET l == cfg.leaves[i]  ran2 == Append(ran, i)  n == Len(cfg.leaves) IN
  IF RaisesAtLeaf(l, cfg, devRaise) THEN [ran |-> ran2, last |-> i, cut |-> TRUE]
  ELSE IF truth(l)
       THEN IF i = n \/ cfg.ops[i] = "or" THEN [ran |-> ran2, last |-> i, cut |-> FALSE]
            ELSE Eval(cfg, i + 1, ran2, truth, devRaise)
       ELSE LET j == NextOr(cfg.ops, i) IN
            IF j = 0 THEN [ran |-> ran2, last |-> i, cut |-> FALSE]
            ELSE Eval(cfg, j + 1, ran2, truth, devRaise)

\* does the statement raise once its evaluation is over?
EndRaises(cfg, e) ==
  LET l == cfg.leaves[e.last] IN
  /\ l.rc # 0 /\ l.dec # "ignore"
  /\ IF Len(cfg.leaves) = 1
     THEN \* a standalone command: per-command raising applies to every capture form, !() included
          IF l.form = "object" THEN cfg.cmdraise ELSE (cfg.raise \/ cfg.cmdraise \/ l.dec = "raise")
     ELSE l.form # "object" /\ cfg.raise

\* the value forms $() / $[] are judged through "the most recent pipeline": when the command is a
\* callable alias that ran a (successful) command of its own, that inner pipeline is what is seen
InnerHides(cfg, e) == LET l == cfg.leaves[e.last] IN l.inner /\ l.form \in {"dollar", "dollarsq"}
Outcome(cfg, truth(_), devRaise, dev) ==
  LET e == Eval(cfg, 1, <<>>, truth, devRaise)
      hidden == "Dev_LastcmdSeesInner" \in Deviations /\ ~e.cut /\ InnerHides(cfg, e) /\ EndRaises(cfg, e)
      raised == e.cut \/ (EndRaises(cfg, e) /\ ~hidden)
  IN [ran |-> e.ran, raised |-> raised, marker |-> ~raised,
      dev |-> IF hidden THEN (IF dev = "" THEN "Dev_LastcmdSeesInner" ELSE dev \o "+LastcmdSeesInner") ELSE dev]

Outcomes(cfg) ==
  {Outcome(cfg, TruthOK, FALSE, "")}
  \cup (IF "Dev_CmdRaiseDependsOnParsePath" \in Deviations THEN {Outcome(cfg, TruthOK, TRUE, "Dev_CmdRaiseDependsOnParsePath")} ELSE {})
  \cup (IF "Dev_ValueTruthiness" \in Deviations THEN {Outcome(cfg, TruthDev, FALSE, "Dev_ValueTruthiness")} ELSE {})
  \cup (IF {"Dev_ValueTruthiness", "Dev_CmdRaiseDependsOnParsePath"} \subseteq Deviations
        THEN {Outcome(cfg, TruthDev, TRUE, "Dev_ValueTruthiness+CmdRaiseDependsOnParsePath")} ELSE {})

Configs == UNION {[leaves : [1..n -> Leaves], ops : [1..(n - 1) -> Ops], raise : BOOLEAN, cmdraise : BOOLEAN] : n \in 1..MaxLeaves}

NoCfg == [leaves |-> <<>>, ops |-> <<>>, raise |-> TRUE, cmdraise |-> FALSE]
\* (one configuration per behaviour: configurations do not interact)
Run(cfg) == /\ act = NoCfg /\ act' = cfg /\ \E o \in Outcomes(cfg) : res' = o
Init == act = NoCfg /\ res = [ran |-> <<>>, raised |-> FALSE, marker |-> TRUE, dev |-> ""]
Next == \E cfg \in Configs : Run(cfg)
Spec == Init /\ [][Next]_vars

\* ---------------------------- the property -----------------------------------------------
\* a command runs iff short-circuit evaluation over exit codes reaches it
RECURSIVE Reached(_, _, _)
Reached(cfg, i, k) ==   \* is leaf k reached when evaluation is at leaf i (exit-code truth)?
  IF i = k THEN TRUE
  ELSE IF i > k THEN FALSE
  ELSE LET l == cfg.leaves[i] IN
       IF l.rc # 0 /\ l.dec = "raise" THEN FALSE
       ELSE IF l.rc = 0 THEN (IF cfg.ops[i] = "or" THEN FALSE ELSE Reached(cfg, i + 1, k))
       ELSE LET j == NextOr(cfg.ops, i) IN IF j = 0 THEN FALSE ELSE Reached(cfg, j + 1, k)
RunsIffReached == [][\A k \in 1..Len(act'.leaves) :
                      (\E p \in 1..Len(res'.ran) : res'.ran[p] = k) <=> Reached(act', 1, k)]_vars
\* once a statement raises, no later statement runs
NothingAfterRaise == [][res'.marker = ~res'.raised]_vars
\* !() results and @error_ignore'd commands never make the statement raise
\* (an explicit @error_raise on the command itself takes precedence)
Exempt == [][(res'.raised /\ res'.ran # <<>>) =>
               LET l == act'.leaves[res'.ran[Len(res'.ran)]] IN
               l.rc # 0 /\ (l.dec = "raise" \/ (l.dec # "ignore" /\ (l.form # "object" \/ (act'.cmdraise /\ Len(act'.leaves) = 1))))]_vars
\* with chain raising off (and no per-command raising requested) nothing raises
FlagOff == [][(~act'.raise /\ ~act'.cmdraise /\ \A i \in 1..Len(act'.leaves) : act'.leaves[i].dec # "raise") => ~res'.raised]_vars
=============================================================================
