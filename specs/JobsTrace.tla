----------------------------- MODULE JobsTrace -----------------------------
(* Trace validation for Jobs: every recorded execution of the real xonsh.procs.jobs module
   must be a behaviour of Jobs. *)
EXTENDS Jobs, Json, IOUtils, TLCExt

Traces == JsonDeserialize(IOEnv.TRACE_FILE)

VARIABLES tid, l, used
tvars == <<vars, tid, l, used>>

TInit == /\ tid \in 1..Len(Traces) /\ l = 1 /\ used = {} /\ Init

SameSet(s1, s2) == Range(s1) = Range(s2) /\ Len(s1) = Len(s2)

TStep ==
  /\ l <= Len(Traces[tid].steps)
  /\ LET e == Traces[tid].steps[l] IN
       /\ \/ e.cmd = "start" /\ Start(e.arg.kind = "bg")
          \/ e.cmd = "startreal" /\ StartPipeline(e.arg.kind)
          \/ e.cmd = "startfaulty" /\ StartFaulty
          \/ e.cmd = "exit" /\ ProcExit(e.arg.n)
          \/ e.cmd = "stop" /\ ProcStop(e.arg.n)
          \/ e.cmd = "jobs" /\ JobsCmd(e.thr)
          \/ e.cmd = "fg" /\ Fg(e.arg)
          \/ e.cmd = "bg" /\ Bg(e.arg, e.thr)
          \/ e.cmd = "disown" /\ \E p \in BOOLEAN : Disown(e.ids, e.thr, p)
       /\ tab' = e.obs.tab /\ tasks' = e.obs.tasks
       /\ res'.failed = e.obs.failed
       /\ (e.cmd = "jobs" => SameSet(res'.out, e.obs.out))
       /\ (e.cmd \in {"fg", "bg", "start", "startreal", "startfaulty"} => res'.sel = e.obs.sel)
       /\ used' = IF res'.dev = "" THEN used ELSE used \cup {res'.dev}
  /\ l' = l + 1 /\ tid' = tid

TSpec == TInit /\ [][TStep]_tvars

Report == /\ PrintT(<<"P", tid, l>>)
          /\ (l > Len(Traces[tid].steps) => PrintT(<<"D", tid, ToJson(used)>>))
=============================================================================
