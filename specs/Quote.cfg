SPECIFICATION Spec
CONSTANTS
  Alphabet = {"a", "sp", "sq", "dq", "dl", "bs", "nl", "tab", "bang", "star", "qm", "tilde", "dash", "hash", "lb", "rb", "amp", "eq", "pipe"}
  MaxLen = 3
  Deviations = {}
INVARIANT ReadsBack
INVARIANT Satisfiable
CHECK_DEADLOCK FALSE
