----------------------------- MODULE EnvLayers -----------------------------
(* C11: scoped environment changes are exactly undone and never leak across threads.

   Implementation-shaped state of xonsh's Env:
     glob            the shared mapping
     loc[t]          the thread-local override layer of thread t (swap writes here)
     ovl[t]          thread t's stack of overlays (alias `env`, `$X=1 cmd` prefixes)
     scopes[t]       open `with env.swap(...)` scopes of thread t (what each must restore)
     cache           the cached detyped mapping (one per Env, shared by all threads)
   Keys: VG is set globally, VD is registered with a default only, VU is unknown.
   "-" = no entry, "DEL" = the DELETE_VAR mask.

   Conformant actions undo a scope exactly; the pinned code's behaviour where it differs is a
   named Dev_* alternative. *)
EXTENDS Naturals, Sequences, FiniteSets, TLC

CONSTANTS Threads, MaxDepth, Keys, MaxLevel, Deviations

DevNames == {"Dev_RestoreWritesLocal", "Dev_SharedDetypeCache", "Dev_IterIgnoresOverlayValue",
             "Dev_ExitKeyError"}

VARIABLES glob, loc, ovl, scopes, cache, act, res
vars == <<glob, loc, ovl, scopes, cache, act, res>>
view == <<glob, loc, ovl, scopes, cache>>

Vals == {"s1", "v2", "o1", "g0"}
SwapVals == {"s1", "DEL"}
SetVals == {"v2"}
OvlVals == {"o1", "DEL"}
Default(k) == IF k = "VD" THEN "d0" ELSE "-"
Registered(k) == k = "VD"
Empty == [k \in Keys |-> "-"]
NoCache == [k \in Keys |-> "?"]      \* the detyped cache is invalid

\* ---------------------------- read paths (as implemented) -----------------------------------
D(t, k) == IF loc[t][k] # "-" THEN loc[t][k] ELSE glob[k]        \* the layered dict `_d`
RECURSIVE OvlTop(_, _)
OvlTop(s, k) == IF s = <<>> THEN "-"
                ELSE IF s[Len(s)][k] # "-" THEN s[Len(s)][k] ELSE OvlTop(SubSeq(s, 1, Len(s) - 1), k)

\* env[k]: the value, or "KeyError"
GetItem(t, k) ==
  LET o == OvlTop(ovl[t], k) IN
  IF o # "-" THEN (IF o = "DEL" THEN "KeyError" ELSE o)
  ELSE IF D(t, k) # "-" THEN (IF D(t, k) = "DEL" THEN "KeyError" ELSE D(t, k))
  ELSE IF Default(k) # "-" THEN Default(k) ELSE "KeyError"
Contains(t, k) ==
  LET o == OvlTop(ovl[t], k) IN
  IF o # "-" THEN o # "DEL"
  ELSE IF D(t, k) # "-" THEN D(t, k) # "DEL"
  ELSE Default(k) # "-"
\* `k in list(env)`
MaskedByAnyOverlay(t, k) == \E i \in 1..Len(ovl[t]) : ovl[t][i][k] = "DEL"
InIterImpl(t, k) == /\ (D(t, k) # "-" \/ Default(k) # "-")
                    /\ ~MaskedByAnyOverlay(t, k)
                    /\ D(t, k) # "DEL"
\* what iteration must be for the read paths to agree
InIter(t, k) == Contains(t, k)

\* detype(): explicitly set (or overlaid) variables only, masks omitted
DetypeCompute(t) ==
  [k \in Keys |-> LET o == OvlTop(ovl[t], k) IN
                  IF o # "-" THEN (IF o = "DEL" THEN "-" ELSE o)
                  ELSE IF D(t, k) = "DEL" THEN "-" ELSE D(t, k)]

View(t) == [k \in Keys |-> [item |-> GetItem(t, k), has |-> Contains(t, k)]]

\* ---------------------------- actions ----------------------------------------------------
Single(k, v) == [j \in Keys |-> IF j = k THEN v ELSE "-"]
Maps1 == {Single(k, v) : k \in Keys, v \in SwapVals} \cup {[j \in Keys |-> "s1"]}
OvlMaps == {Empty} \cup {Single(k, "s1") : k \in Keys}
Ovls == {Empty} \cup {Single(k, v) : k \in Keys, v \in OvlVals}

Lab(cmd, t, k, v, m, o) == [cmd |-> cmd, t |-> t, k |-> k, v |-> v, m |-> m, o |-> o]
NoRes == [err |-> FALSE, out |-> Empty, dev |-> ""]

\* what swap remembers for key k before overriding it
Capture(t, k) == IF loc[t][k] # "-" THEN loc[t][k]
                 ELSE IF GetItem(t, k) # "KeyError" THEN GetItem(t, k) ELSE "NOTIMPL"

SwapEnter(t, m, o, withOvl) ==
  /\ Len(scopes[t]) < MaxDepth
  /\ (m = Empty => withOvl)
  /\ scopes' = [scopes EXCEPT ![t] = Append(@, [keys |-> {k \in Keys : m[k] # "-"},
                                                 old |-> [k \in Keys |-> Capture(t, k)],
                                                 prevLoc |-> loc[t], withOvl |-> withOvl,
                                                 before |-> View(t), dirty |-> {}])]
  /\ loc' = [loc EXCEPT ![t] = [k \in Keys |-> IF m[k] # "-" THEN m[k] ELSE @[k]]]
  /\ ovl' = IF withOvl THEN [ovl EXCEPT ![t] = Append(@, o)] ELSE ovl
  /\ cache' = IF m = Empty THEN cache ELSE NoCache
  /\ act' = Lab("enter", t, "", "", m, IF withOvl THEN o ELSE Empty) /\ res' = NoRes
  /\ UNCHANGED glob

\* exact undo: every swapped key gets back the local entry it had (or none)
ExactRestore(t, sc) == [k \in Keys |-> IF k \in sc.keys THEN sc.prevLoc[k] ELSE loc[t][k]]
\* the pinned code: writes the captured *visible* value into the local layer
CodeRestore(t, sc) == [k \in Keys |-> IF k \notin sc.keys THEN loc[t][k]
                                      ELSE IF sc.old[k] = "NOTIMPL" THEN "-" ELSE sc.old[k]]
Ord(k) == CASE k = "VG" -> 1 [] k = "VD" -> 2 [] OTHER -> 3
\* the code's `_del_item(k, thread_local=True)` raises for an unknown variable that is no longer set
ExitRaises(t, sc) == \E k \in sc.keys : sc.old[k] = "NOTIMPL" /\ D(t, k) = "-" /\ ~Registered(k)

\* exc: "" (normal), "exc" (an Exception), "sysexit" (SystemExit / KeyboardInterrupt: not an Exception)
SwapExit(t, exc) ==
  /\ scopes[t] # <<>> /\ exc \in {"", "exc", "sysexit"}
  /\ LET sc == scopes[t][Len(scopes[t])]
         o2 == IF sc.withOvl THEN [ovl EXCEPT ![t] = SubSeq(@, 1, Len(@) - 1)] ELSE ovl
     IN
     /\ scopes' = [scopes EXCEPT ![t] = SubSeq(@, 1, Len(@) - 1)]
     /\ ovl' = o2
     /\ cache' = IF sc.keys = {} THEN cache ELSE NoCache
     /\ act' = Lab("exit", t, "", exc, Empty, Empty)
     /\ UNCHANGED glob
     /\ \/ loc' = [loc EXCEPT ![t] = ExactRestore(t, sc)] /\ res' = NoRes
        \/ /\ "Dev_RestoreWritesLocal" \in Deviations /\ ~ExitRaises(t, sc)
           /\ CodeRestore(t, sc) # ExactRestore(t, sc)
           /\ loc' = [loc EXCEPT ![t] = CodeRestore(t, sc)]
           /\ res' = [NoRes EXCEPT !.dev = "Dev_RestoreWritesLocal"]
        \/ \* deleting an unknown swapped variable inside the scope makes the exit raise KeyError
           \* 
           \* the keys are restored in the order they were given (VG, VD, VU); those after the
           \* raising one are not restored at all
           /\ "Dev_ExitKeyError" \in Deviations /\ ExitRaises(t, sc)
           /\ LET bad == {k \in sc.keys : sc.old[k] = "NOTIMPL" /\ D(t, k) = "-" /\ ~Registered(k)}
                  first == CHOOSE k \in bad : \A j \in bad : Ord(k) <= Ord(j)
              IN loc' = [loc EXCEPT ![t] = [k \in Keys |-> IF Ord(k) < Ord(first) THEN CodeRestore(t, sc)[k] ELSE loc[t][k]]]
           /\ res' = [NoRes EXCEPT !.err = TRUE, !.dev = "Dev_ExitKeyError"]

\* history: key k was assigned/deleted while these scopes were open
Touch(k) == [u \in Threads |-> [i \in 1..Len(scopes[u]) |-> [scopes[u][i] EXCEPT !.dirty = @ \cup {k}]]]

\* env[k] = v  (v = "DEL" behaves like del when the key is set, else a no-op)
Set(t, k, v) ==
  /\ IF loc[t][k] # "-" THEN loc' = [loc EXCEPT ![t][k] = v] /\ UNCHANGED glob
                        ELSE glob' = [glob EXCEPT ![k] = v] /\ UNCHANGED loc
  /\ cache' = NoCache
  /\ act' = Lab("set", t, k, v, Empty, Empty) /\ res' = NoRes
  /\ scopes' = Touch(k)
  /\ UNCHANGED ovl

\* del env[k]
Del(t, k) ==
  /\ act' = Lab("del", t, k, "", Empty, Empty)
  /\ scopes' = Touch(k)
  /\ UNCHANGED ovl
  /\ IF loc[t][k] # "-" THEN loc' = [loc EXCEPT ![t][k] = "-"] /\ UNCHANGED glob /\ cache' = NoCache /\ res' = NoRes
     ELSE IF glob[k] # "-" THEN glob' = [glob EXCEPT ![k] = "-"] /\ UNCHANGED loc /\ cache' = NoCache /\ res' = NoRes
     ELSE UNCHANGED <<glob, loc, cache>> /\ res' = [NoRes EXCEPT !.err = ~Registered(k)]

\* the body of an alias mutates its `env` overlay (the top one)
OvlSet(t, k, v) ==
  /\ ovl[t] # <<>>
  /\ ovl' = [ovl EXCEPT ![t][Len(ovl[t])][k] = v]
  /\ act' = Lab("ovlset", t, k, v, Empty, Empty) /\ res' = NoRes
  /\ UNCHANGED <<glob, loc, scopes, cache>>

\* the mapping a child launched by thread t receives
Detype(t) ==
  /\ act' = Lab("detype", t, "", "", Empty, Empty)
  /\ UNCHANGED <<glob, loc, ovl, scopes>>
  /\ \/ /\ res' = [NoRes EXCEPT !.out = DetypeCompute(t)]
        /\ cache' = IF ovl[t] = <<>> THEN DetypeCompute(t) ELSE cache
     \/ \* the cache is one attribute of the Env, filled by whichever thread detyped last
        /\ "Dev_SharedDetypeCache" \in Deviations
        /\ cache # NoCache /\ ovl[t] = <<>> /\ cache # DetypeCompute(t)
        /\ res' = [err |-> FALSE, out |-> cache, dev |-> "Dev_SharedDetypeCache"]
        /\ cache' = cache

\* a helper thread starts with its spawner's thread-local view (ProcProxyThread / PopenThread)
Inherit(t, u) ==
  /\ t # u /\ u # "main" /\ scopes[u] = <<>> /\ ovl[u] = <<>>
  /\ loc' = [loc EXCEPT ![u] = loc[t]]
  /\ cache' = cache
  /\ act' = Lab("inherit", u, "", t, Empty, Empty) /\ res' = NoRes
  /\ UNCHANGED <<glob, ovl, scopes>>
\* ... and drops it when it ends
Drop(u) ==
  /\ u # "main" /\ scopes[u] = <<>> /\ ovl[u] = <<>> /\ loc[u] # Empty
  /\ loc' = [loc EXCEPT ![u] = Empty]
  /\ cache' = cache
  /\ act' = Lab("drop", u, "", "", Empty, Empty) /\ res' = NoRes
  /\ UNCHANGED <<glob, ovl, scopes>>

\* the helper thread ends and a new one is started later (thread identifiers are recycled by the
\* platform): the newcomer has entered no scope and must see the plain environment
Respawn(u) ==
  /\ u # "main" /\ scopes[u] = <<>> /\ ovl[u] = <<>>
  /\ loc' = [loc EXCEPT ![u] = Empty]
  /\ cache' = cache
  /\ act' = Lab("respawn", u, "", "", Empty, Empty) /\ res' = NoRes
  /\ UNCHANGED <<glob, ovl, scopes>>

Init == /\ glob = [k \in Keys |-> IF k = "VG" THEN "g0" ELSE "-"]
        /\ loc = [t \in Threads |-> Empty] /\ ovl = [t \in Threads |-> <<>>]
        /\ scopes = [t \in Threads |-> <<>>] /\ cache = NoCache
        /\ act = Lab("init", "main", "", "", Empty, Empty) /\ res = NoRes

Next == \E t \in Threads :
          \/ \E m \in Maps1 : SwapEnter(t, m, Empty, FALSE)
          \/ \E m \in OvlMaps, o \in Ovls : SwapEnter(t, m, o, TRUE)
          \/ \E e \in {"", "exc", "sysexit"} : SwapExit(t, e)
          \/ Respawn(t)
          \/ \E k \in Keys, v \in SetVals : Set(t, k, v)
          \/ \E k \in Keys : Del(t, k)
          \/ \E k \in Keys, v \in OvlVals : OvlSet(t, k, v)
          \/ Detype(t)
          \/ \E u \in Threads : Inherit(t, u)
          \/ Drop(t)

Spec == Init /\ [][Next]_vars

\* ---------------------------- the property -----------------------------------------------
\* a scope of thread t never changes what another thread reads
ThreadLocal ==
  [][ \A u \in Threads : (act'.cmd \in {"enter", "exit", "ovlset"} /\ act'.t # u) => View(u)' = View(u) ]_vars

\* all read paths agree: a masked variable is absent from every one of them
MaskConsistent ==
  \A t \in Threads, k \in Keys :
     /\ (GetItem(t, k) = "KeyError") = ~Contains(t, k)
     /\ (~Contains(t, k) => DetypeCompute(t)[k] = "-")

\* exit restores: every read of a swapped key that nobody assigned meanwhile is as before entry
ExitRestores ==
  [][ \A t \in Threads : (act'.cmd = "exit" /\ act'.t = t) =>
        LET sc == scopes[t][Len(scopes[t])] IN
        \A k \in sc.keys \ sc.dirty : View(t)'[k] = sc.before[k] ]_vars

\* once its scopes are closed the main thread keeps no private entries: later assignments by any
\* thread are seen by all (the scope no longer influences reads)
NoResidue == scopes["main"] = <<>> => loc["main"] = Empty

\* the mapping children receive is the current view of the launching thread
DetypeIsView == [][\A t \in Threads : (act'.cmd = "detype" /\ act'.t = t) => res'.out = DetypeCompute(t)']_vars

Bounded == TLCGet("level") <= MaxLevel
=============================================================================
