---------------------------- MODULE RedirectTrace ----------------------------
(* Trace validation for Redirect: each trace is one executed command line with the place where the
   tagged output of each stream was found. *)
EXTENDS Redirect, Json, IOUtils, TLCExt

Traces == JsonDeserialize(IOEnv.TRACE_FILE)

VARIABLES tid, l, used
tvars == <<vars, tid, l, used>>

TInit == /\ tid \in 1..Len(Traces) /\ l = 1 /\ used = {} /\ Init

TStep ==
  /\ l <= Len(Traces[tid].steps)
  /\ LET e == Traces[tid].steps[l] IN
       /\ Run(e.cfg)
       /\ res'.out = e.obs.out /\ res'.err = e.obs.err /\ res'.error = e.obs.error
       \* a redirect operator never reaches the command as an argument
       /\ e.obs.extra_args = 0
       /\ used' = IF res'.dev = "" THEN used ELSE used \cup {res'.dev}
  /\ l' = l + 1 /\ tid' = tid

TSpec == TInit /\ [][TStep]_tvars

Report == /\ PrintT(<<"P", tid, l>>)
          /\ (l > Len(Traces[tid].steps) => PrintT(<<"D", tid, ToJson(used)>>))
=============================================================================
