SPECIFICATION Spec
CONSTANTS
  MaxSegs = 2
  MaxAtoms = 1
  Atoms = {"lflageq", "dash"}
  MCSemis = {"none", "both"}
  MCBlocks = {"if"}
  Deviations = {}
INVARIANT Equivalent
INVARIANT WrapIsExact
INVARIANT AmpOnlyLast
CHECK_DEADLOCK FALSE
