--------------------------- MODULE RecoveryTrace ---------------------------
(* Trace validation for Recovery.  One trace = one call of Execer.parse on some string: the events
   recorded at the head of the recovery loop (retry budget, greedy flag, nested-call flag, last error
   location, number of lines) followed by how the call ended.  Event l describes the state *before*
   iteration l; the action taken in iteration l is whichever action of Recovery leads to the state
   event l+1 describes.  A call that ends any other way than with a tree or a SyntaxError (hang,
   internal exception) has no matching action. *)
EXTENDS Recovery, Json, IOUtils, TLCExt

Traces == JsonDeserialize(IOEnv.TRACE_FILE)

VARIABLES tid, l, used
tvars == <<vars, tid, l, used>>

Steps == Traces[tid].steps

MatchTop(e) == /\ Top.retries = e.retries /\ Top.greedy = e.greedy /\ IsLogical = e.logical
               /\ Top.eline = e.eline /\ Top.ecol = e.ecol /\ Top.n = e.nlines

\* the same for the state after the step (written out: priming MatchTop(nx) would prime the trace position too)
MatchTopNext(e) == LET T == frames'[Len(frames')] IN
               /\ T.retries = e.retries /\ T.greedy = e.greedy /\ (Len(frames') = 2) = e.logical
               /\ T.eline = e.eline /\ T.ecol = e.ecol /\ T.n = e.nlines

TInit == /\ tid \in 1..Len(Traces) /\ l = 1 /\ used = {}
         /\ frames = <<NewFrame(IF Traces[tid].steps[1].cmd = "iter" THEN Traces[tid].steps[1].nlines ELSE 0, FALSE)>>
         /\ pc = "head" /\ result = "" /\ iters = 0 /\ act = "init"

Cands(nx) == {nx.ecol - 3, nx.ecol, 0, 2, 4} \cap Nat

TStep ==
  /\ l <= Len(Steps)
  /\ LET e == Steps[l] IN
       \/ /\ e.cmd = "iter" /\ l < Len(Steps) /\ MatchTop(e)
          /\ LET nx == Steps[l + 1] IN
               IF nx.cmd = "end"
                 THEN \/ nx.how = "tree" /\ Ok(1, 0, 1) /\ pc' = "done"
                      \/ nx.how = "syntaxerror" /\ Fail /\ pc' = "done"
                 ELSE /\ \/ \E k \in {"wrap", "delete", "gogreedy"}, el \in {nx.eline, 1} \cap Nat, ec \in Cands(nx) : Continue(k, el, ec, nx.nlines, nx.ecol, nx.greedy)
                         \/ \E el \in 1..(Top.n + 1), ec \in {0, 2, 4} : Recurse(el, ec, nx.nlines)
                         \/ Ok(nx.eline, nx.ecol, nx.nlines)
                         \/ Fail
                      /\ pc' = "head" /\ MatchTopNext(nx)
                      \* same attempt of the same call: the input may only grow by a bounded amount
                      /\ ((nx.logical = e.logical /\ nx.retries = e.retries - 1) => LenOK(e.length, nx.length, e.nlines + 1))
       \/ /\ e.cmd = "end" /\ pc = "done" /\ UNCHANGED vars
  /\ l' = l + 1 /\ tid' = tid /\ used' = used

TSpec == TInit /\ [][TStep]_tvars

Report == /\ PrintT(<<"P", tid, l>>)
          /\ (l > Len(Steps) => PrintT(<<"D", tid, ToJson(used)>>))
=============================================================================
