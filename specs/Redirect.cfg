SPECIFICATION Spec
CONSTANTS
  MaxOps = 2
  Deviations = {}
PROPERTY OneDestination
PROPERTY OutFollowsOperator
PROPERTY ErrFollowsOperator
PROPERTY MergeMeansSame
PROPERTY ConflictsAreErrors
PROPERTY DefaultOut
PROPERTY NoCrash
CHECK_DEADLOCK FALSE
