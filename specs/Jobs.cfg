SPECIFICATION Spec
CONSTANTS
  Deviations = {}
  MaxJobs = 3
VIEW view
INVARIANT TypeOK
INVARIANT TasksPerm
PROPERTY NoDeadAfterPurge
PROPERTY JobsListsLive
PROPERTY LowestFree
PROPERTY ErrorAltersNothing
PROPERTY SelectionRule
CHECK_DEADLOCK FALSE
