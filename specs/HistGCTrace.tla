---------------------------- MODULE HistGCTrace ----------------------------
(* Trace validation for HistGC: recorded garbage-collection runs on real history files /
   SQLite tables, and direct calls of the pure selection functions. *)
EXTENDS HistGC, Json, IOUtils, TLCExt

Traces == JsonDeserialize(IOEnv.TRACE_FILE)

VARIABLES tid, l, used
tvars == <<vars, tid, l, used>>

TInit == /\ tid \in 1..Len(Traces) /\ l = 1 /\ used = {} /\ Init

TStep ==
  /\ l <= Len(Traces[tid].steps)
  /\ LET e == Traces[tid].steps[l] IN
       \/ /\ e.cmd = "add"
          /\ files' = files \cup {e.file}
          /\ UNCHANGED <<rows, act, res>> /\ used' = used
       \/ /\ e.cmd = "update"     \* a file was re-measured (its size changed on disk)
          /\ files' = {f \in files : f.id # e.file.id} \cup {e.file}
          /\ UNCHANGED <<rows, act, res>> /\ used' = used
       \/ /\ e.cmd = "damage"      \* the live file is rebuilt by its session: nothing changes
          /\ UNCHANGED vars /\ used' = used
       \/ /\ e.cmd = "select"     \* the pure selection function (never refuses)
          /\ LET sel == Selection(files, e.unit, e.limit, TRUE) IN
               /\ {f.id : f \in sel.removed} = Range(e.obs.removed)
               /\ (e.unit # "s" => sel.over = e.obs.over)
          /\ UNCHANGED vars /\ used' = used
       \/ /\ e.cmd = "gc" /\ GC(e.unit, e.limit, e.force)
          /\ {f.id : f \in files'} = Range(e.obs.remaining)
          /\ (Selection(files, e.unit, e.limit, TRUE).removed # {} => res'.refused = e.obs.refused)
          /\ used' = IF res'.dev = "" THEN used ELSE used \cup {res'.dev}
       \/ /\ e.cmd = "addrow"
          /\ rows' = rows \cup {e.limit}
          /\ UNCHANGED <<files, act, res>> /\ used' = used
       \/ /\ e.cmd = "sqlgc"
          /\ \/ SqlGC(e.limit)
             \/ \* run_gc ignores a custom database file name
                /\ "Dev_SqliteGcWrongFile" \in Deviations /\ e.custom
                /\ rows' = rows /\ res' = [NoRes EXCEPT !.dev = "Dev_SqliteGcWrongFile"]
                /\ UNCHANGED <<files, act>>
          /\ rows' = Range(e.obs.rows)
          /\ used' = IF res'.dev = "" THEN used ELSE used \cup {res'.dev}
  /\ l' = l + 1 /\ tid' = tid

TSpec == TInit /\ [][TStep]_tvars

Report == /\ PrintT(<<"P", tid, l>>)
          /\ (l > Len(Traces[tid].steps) => PrintT(<<"D", tid, ToJson(used)>>))
=============================================================================
