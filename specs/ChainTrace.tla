----------------------------- MODULE ChainTrace -----------------------------
(* Trace validation for Chain: each trace is one executed configuration with the observed run log,
   exception and marker. *)
EXTENDS Chain, Json, IOUtils, TLCExt

Traces == JsonDeserialize(IOEnv.TRACE_FILE)

VARIABLES tid, l, used
tvars == <<vars, tid, l, used>>

TInit == /\ tid \in 1..Len(Traces) /\ l = 1 /\ used = {} /\ Init

TStep ==
  /\ l <= Len(Traces[tid].steps)
  /\ LET e == Traces[tid].steps[l] IN
       /\ Run(e.cfg)
       /\ res'.ran = e.obs.ran /\ res'.raised = e.obs.raised /\ res'.marker = e.obs.marker
       /\ used' = IF res'.dev = "" THEN used ELSE used \cup {res'.dev}
  /\ l' = l + 1 /\ tid' = tid

TSpec == TInit /\ [][TStep]_tvars

Report == /\ PrintT(<<"P", tid, l>>)
          /\ (l > Len(Traces[tid].steps) => PrintT(<<"D", tid, ToJson(used)>>))
=============================================================================
