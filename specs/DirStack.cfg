SPECIFICATION Spec
CONSTANTS
  Deviations = {}
  MaxN = 2
  Sizes = {1, 2}
  MaxStack = 2
VIEW view
CONSTRAINT Bounded
INVARIANT TypeOK
INVARIANT PwdNamesCwd
INVARIANT PushdPopdRestores
PROPERTY FailChangesNothing
PROPERTY OldpwdIsPrevious
PROPERTY StackBounded
PROPERTY PushdRotates
PROPERTY PopdRemovesOne
CHECK_DEADLOCK FALSE
