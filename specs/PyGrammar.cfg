SPECIFICATION Spec
CONSTANTS
  Deviations = {}
INVARIANT SameTree
CHECK_DEADLOCK FALSE
