------------------------------- MODULE Scope -------------------------------
(* C02: code whose names are all bound runs as Python, never as a command.

   A source text is walked statement by statement.  `scopes` is the stack of lexical scopes
   ([kind, names]: module at the bottom, then function / class bodies), `session` the names the
   session already holds.  Binding statements add a name to the innermost scope; `del` removes it;
   `global x` (in a function) makes x a module-level name.  An expression statement that looks like
   a command (`a -b`, `a | b`, `a < b`, `a and b`, bare `a`) reads names; the decision for it is
     "python"  required when every name it reads is bound for Python's lexical rules (own scope,
               enclosing function scopes, module, session) - whatever it looks like;
     "command" required when some name it reads is bound nowhere in the enclosing scopes;
     either    in the remaining cases (a name bound only in an enclosing *class* body, which Python
               does not make visible in nested functions). *)
EXTENDS Naturals, Sequences, FiniteSets, TLC

CONSTANTS Names, MaxStmts, Deviations

DevNames == {"Dev_ImportDottedBindsNothing", "Dev_WalrusStmtNotBound"}

VARIABLES scopes, session, n, act, res
vars == <<scopes, session, n, act, res>>

Forms == {"assign", "ann", "import", "importdotted", "importfrom", "for", "with", "except", "walrus", "walrusif"}
Shapes == {"sub", "pipe", "lt", "and", "bare"}
Reads(shape, x, y) == IF shape = "bare" THEN {x} ELSE {x, y}

Lab(cmd, form, x, y) == [cmd |-> cmd, form |-> form, x |-> x, y |-> y]
NoRes == [decision |-> "", dev |-> ""]
Top == scopes[Len(scopes)]

Step(lab) == /\ n < MaxStmts /\ n' = n + 1 /\ act' = lab

\* a binding statement
Bind(form, x) ==
  /\ Step(Lab("bind", form, x, "")) /\ form \in Forms /\ UNCHANGED session
  /\ \/ scopes' = [scopes EXCEPT ![Len(scopes)].names = @ \cup {x}] /\ res' = NoRes
     \/ \* `import x.sub` binds the dotted text instead of `x`
        /\ "Dev_ImportDottedBindsNothing" \in Deviations /\ form = "importdotted" /\ x \notin Top.names
        /\ UNCHANGED scopes /\ res' = [NoRes EXCEPT !.dev = "Dev_ImportDottedBindsNothing"]
     \/ \* a walrus used as a statement `(x := 1)` is not recorded
        /\ "Dev_WalrusStmtNotBound" \in Deviations /\ form = "walrus" /\ x \notin Top.names
        /\ UNCHANGED scopes /\ res' = [NoRes EXCEPT !.dev = "Dev_WalrusStmtNotBound"]
\* def f(p): ...   (f is bound outside, p inside)
Def(f, p) == /\ Step(Lab("def", "", f, p)) /\ Len(scopes) < 3 /\ UNCHANGED session
             /\ scopes' = Append([scopes EXCEPT ![Len(scopes)].names = @ \cup {f}], [kind |-> "function", names |-> {p}, globals |-> {}])
             /\ res' = NoRes
Class(c) == /\ Step(Lab("class", "", c, "")) /\ Len(scopes) < 3 /\ UNCHANGED session
            /\ scopes' = Append([scopes EXCEPT ![Len(scopes)].names = @ \cup {c}], [kind |-> "class", names |-> {}, globals |-> {}])
            /\ res' = NoRes
EndBlock == /\ Step(Lab("end", "", "", "")) /\ Len(scopes) > 1 /\ UNCHANGED session
            /\ scopes' = SubSeq(scopes, 1, Len(scopes) - 1) /\ res' = NoRes
\* global x; x = 1   inside a function
Global(x) == /\ Step(Lab("global", "", x, "")) /\ Top.kind = "function" /\ UNCHANGED session
             /\ scopes' = [scopes EXCEPT ![1].names = @ \cup {x}, ![Len(scopes)].globals = @ \cup {x}] /\ res' = NoRes
\* del x: the name leaves the innermost scope that holds it - or the session
Holders(x) == {i \in 1..Len(scopes) : x \in scopes[i].names}
\* (deleting, inside a function, a name that the function declared `global` is left out of the model)
Del(x) == /\ Step(Lab("del", "", x, "")) /\ res' = NoRes /\ x \notin Top.globals
          /\ IF Holders(x) # {}
             THEN LET i == CHOOSE j \in Holders(x) : \A k \in Holders(x) : k <= j IN
                  scopes' = [scopes EXCEPT ![i].names = @ \ {x}] /\ UNCHANGED session
             ELSE session' = session \ {x} /\ UNCHANGED scopes

\* ---------------------------- the decision -------------------------------------------------
\* Python's lexical rule: own scope, enclosing *function* scopes and the module, the session
VisibleStrict == session \cup Top.names \cup UNION {scopes[i].names : i \in {j \in 1..(Len(scopes) - 1) : scopes[j].kind # "class"}}
\* bound anywhere in the enclosing scopes
VisibleLoose == session \cup UNION {scopes[i].names : i \in 1..Len(scopes)}

Expr(shape, x, y) ==
  /\ Step(Lab("expr", shape, x, y)) /\ shape \in Shapes /\ UNCHANGED <<scopes, session>>
  /\ LET r == Reads(shape, x, y) IN
     \/ /\ r \subseteq VisibleLoose /\ res' = [decision |-> "python", dev |-> ""]
     \/ /\ ~(r \subseteq VisibleStrict) /\ res' = [decision |-> "command", dev |-> ""]

Init == /\ scopes = <<[kind |-> "module", names |-> {}, globals |-> {}]>> /\ session \in SUBSET Names /\ n = 0
        /\ act = Lab("init", "", "", "") /\ res = NoRes

Next == \/ \E f \in Forms, x \in Names : Bind(f, x)
        \/ \E f \in Names, p \in Names : Def(f, p)
        \/ \E c \in Names : Class(c)
        \/ EndBlock
        \/ \E x \in Names : Global(x) \/ Del(x)
        \/ \E s \in Shapes, x \in Names, y \in Names : Expr(s, x, y)

Spec == Init /\ [][Next]_vars

\* ---------------------------- the property -----------------------------------------------
IsExpr == act'.cmd = "expr"
\* all names bound => Python, whatever the statement looks like
PythonWins == [][(IsExpr /\ Reads(act'.form, act'.x, act'.y) \subseteq VisibleStrict) => res'.decision = "python"]_vars
\* a name bound nowhere (never bound, or deleted) => command interpretation
UnboundIsCommand == [][(IsExpr /\ ~(Reads(act'.form, act'.x, act'.y) \subseteq VisibleLoose)) => res'.decision = "command"]_vars
\* scopes are left as they were entered: a function's parameters and locals do not outlive it
BlockRestores == [][(act'.cmd = "end") => (Len(scopes') = Len(scopes) - 1 /\ \A i \in 1..Len(scopes') : scopes'[i] = scopes[i])]_vars
=============================================================================
