------------------------------- MODULE Capture -------------------------------
(* C06: captured output is complete, ordered and exactly what the command wrote.

   One captured final stage on the threaded path, end to end, at the granularity of the code's
   own steps (each is one call or one critical section of xonsh/procs):

     Writer  the child (or a callable alias): writes its payload unit by unit into a pipe of capacity
             PipeCap, blocks while the pipe is full, then closes its end and exits with code Rc
     Pump    readers.populate_fd_queue (one thread per captured stream): Read up to ReadMax units,
             Put the chunk on the queue; at end of file (pipe empty and *every* write end closed,
             the shell's own copy included) set `closed` and stop
     Copier  posix.PopenThread.run: while the child runs, drain the queue without blocking and append
             each chunk to the in-memory buffer as the four steps Tell / SeekEnd / Write / SeekBack
             (under the copier's lock - the buffer has ONE file position, shared with the reader);
             after the child exited close the shell's copy of the write end; keep draining until
             closed /\ pump stopped /\ queue empty
     Main    pipelines.CommandPipeline.iterraw: poll - ReadLines from the buffer's file position -
             until the child and the copier are finished, then the final reads

   Payload units are opaque and distinct, so loss, duplication and reordering are all visible in
   `got` (what the caller receives).

   Dev_UnlockedRead: Main's ReadLines does not take the copier's lock, so it can run between the
   copier's Tell and SeekBack; the file position it advanced is then rewound and the bytes are
   delivered twice. *)
EXTENDS Naturals, Sequences, FiniteSets, TLC

CONSTANTS N,          \* payload = <<1, ..., N>>
          PipeCap, ReadMax, Hint,   \* pipe capacity; units per os.read; units per readlines(hint)
          FROrder,    \* the order in which "fully read?" reads its three flags: the code's is <<"closed", "thread", "empty">>
          Deviations

Payload == [i \in 1..N |-> i]
\* orders for the constant FROrder (cfg files cannot hold tuples)
CodeOrder == <<"closed", "thread", "empty">>
EmptyFirst == <<"empty", "closed", "thread">>

VARIABLES toWrite, pipe, childOpen, shellOpen, exited,      \* writer / pipe
          pumpPc, chunk, queue, closed,                     \* pump
          copPc, cur, saved, membuf, fpos, lockHeld, closedWriter, copDone, frk,   \* copier + buffer; frk: flags of "fully read?" read so far
          mainPc, got, finalReads                           \* main

vars == <<toWrite, pipe, childOpen, shellOpen, exited, pumpPc, chunk, queue, closed,
          copPc, cur, saved, membuf, fpos, lockHeld, closedWriter, copDone, frk, mainPc, got, finalReads>>

Min(a, b) == IF a < b THEN a ELSE b
Take(s, n) == SubSeq(s, 1, Min(n, Len(s)))
Drop(s, n) == SubSeq(s, Min(n, Len(s)) + 1, Len(s))

Init == /\ toWrite = Payload /\ pipe = <<>> /\ childOpen = TRUE /\ shellOpen = TRUE /\ exited = FALSE
        /\ pumpPc = "read" /\ chunk = <<>> /\ queue = <<>> /\ closed = FALSE
        /\ copPc = "loop" /\ cur = <<>> /\ saved = 0 /\ membuf = <<>> /\ fpos = 0 /\ lockHeld = FALSE
        /\ closedWriter = FALSE /\ copDone = FALSE /\ frk = 0
        /\ mainPc = "poll" /\ got = <<>> /\ finalReads = 0

(* ---- Writer -------------------------------------------------------------------------------- *)
Write == /\ toWrite # <<>> /\ Len(pipe) < PipeCap
         /\ pipe' = Append(pipe, Head(toWrite)) /\ toWrite' = Tail(toWrite)
         /\ UNCHANGED <<childOpen, shellOpen, exited, pumpPc, chunk, queue, closed, copPc, cur, saved, membuf, fpos, lockHeld, closedWriter, copDone, frk, mainPc, got, finalReads>>
WriterExit == /\ toWrite = <<>> /\ ~exited
              /\ childOpen' = FALSE /\ exited' = TRUE
              /\ UNCHANGED <<toWrite, pipe, shellOpen, pumpPc, chunk, queue, closed, copPc, cur, saved, membuf, fpos, lockHeld, closedWriter, copDone, frk, mainPc, got, finalReads>>

(* ---- Pump ---------------------------------------------------------------------------------- *)
PumpRead == /\ pumpPc = "read" /\ pipe # <<>>
            /\ chunk' = Take(pipe, ReadMax) /\ pipe' = Drop(pipe, ReadMax) /\ pumpPc' = "put"
            /\ UNCHANGED <<toWrite, childOpen, shellOpen, exited, queue, closed, copPc, cur, saved, membuf, fpos, lockHeld, closedWriter, copDone, frk, mainPc, got, finalReads>>
PumpPut == /\ pumpPc = "put"
           /\ queue' = Append(queue, chunk) /\ chunk' = <<>> /\ pumpPc' = "read"
           /\ UNCHANGED <<toWrite, pipe, childOpen, shellOpen, exited, closed, copPc, cur, saved, membuf, fpos, lockHeld, closedWriter, copDone, frk, mainPc, got, finalReads>>
\* end of file only when every write end is closed
PumpEOF == /\ pumpPc = "read" /\ pipe = <<>> /\ ~childOpen /\ ~shellOpen
           /\ closed' = TRUE /\ pumpPc' = "stopped"
           /\ UNCHANGED <<toWrite, pipe, childOpen, shellOpen, exited, chunk, queue, copPc, cur, saved, membuf, fpos, lockHeld, closedWriter, copDone, frk, mainPc, got, finalReads>>

(* ---- Copier -------------------------------------------------------------------------------- *)
FullyRead == closed /\ pumpPc = "stopped" /\ queue = <<>>

\* one non-blocking get from the queue starts the four-step append
CopGet == /\ copPc \in {"loop", "drain"} /\ queue # <<>> /\ ~lockHeld /\ frk = 0
          /\ cur' = Head(queue) /\ queue' = Tail(queue) /\ lockHeld' = TRUE
          /\ copPc' = IF copPc = "loop" THEN "tell" ELSE "dtell"
          /\ UNCHANGED <<toWrite, pipe, childOpen, shellOpen, exited, pumpPc, chunk, closed, saved, membuf, fpos, closedWriter, copDone, frk, mainPc, got, finalReads>>
CopTell == /\ copPc \in {"tell", "dtell"}
           /\ saved' = fpos /\ copPc' = IF copPc = "tell" THEN "seekend" ELSE "dseekend"
           /\ UNCHANGED <<toWrite, pipe, childOpen, shellOpen, exited, pumpPc, chunk, queue, closed, cur, membuf, fpos, lockHeld, closedWriter, copDone, frk, mainPc, got, finalReads>>
CopSeekEnd == /\ copPc \in {"seekend", "dseekend"}
              /\ fpos' = Len(membuf) /\ copPc' = IF copPc = "seekend" THEN "write" ELSE "dwrite"
              /\ UNCHANGED <<toWrite, pipe, childOpen, shellOpen, exited, pumpPc, chunk, queue, closed, cur, saved, membuf, lockHeld, closedWriter, copDone, frk, mainPc, got, finalReads>>
CopWrite == /\ copPc \in {"write", "dwrite"}
            /\ membuf' = membuf \o cur /\ fpos' = Len(membuf) + Len(cur) /\ copPc' = IF copPc = "write" THEN "seekback" ELSE "dseekback"
            /\ UNCHANGED <<toWrite, pipe, childOpen, shellOpen, exited, pumpPc, chunk, queue, closed, cur, saved, lockHeld, closedWriter, copDone, frk, mainPc, got, finalReads>>
CopSeekBack == /\ copPc \in {"seekback", "dseekback"}
               /\ fpos' = saved /\ cur' = <<>> /\ lockHeld' = FALSE
               /\ copPc' = IF copPc = "seekback" THEN "loop" ELSE "drain"
               /\ UNCHANGED <<toWrite, pipe, childOpen, shellOpen, exited, pumpPc, chunk, queue, closed, saved, membuf, closedWriter, copDone, frk, mainPc, got, finalReads>>
\* the polling loop ends when the child has exited; the shell's copy of the write end is closed then
CopProcExit == /\ copPc = "loop" /\ exited
               /\ shellOpen' = FALSE /\ closedWriter' = TRUE /\ copPc' = "drain"
               /\ UNCHANGED <<toWrite, pipe, childOpen, exited, pumpPc, chunk, queue, closed, cur, saved, membuf, fpos, lockHeld, copDone, frk, mainPc, got, finalReads>>
\* "fully read?" is not atomic in the code: QueueReader.is_fully_read reads `closed`, the pump thread's
\* liveness and the queue's emptiness one after the other (short-circuit `and`).  One step per read; a
\* false flag sends the copier back to draining.  The order matters: a chunk put after `empty` was read
\* but before `closed` was read would be left behind.
Flag(f) == CASE f = "closed" -> closed [] f = "thread" -> pumpPc = "stopped" [] f = "empty" -> queue = <<>>
CopCheck == /\ copPc = "drain" /\ ~lockHeld
            /\ IF Flag(FROrder[frk + 1])
                 THEN IF frk + 1 = 3 THEN copDone' = TRUE /\ copPc' = "done" /\ frk' = 0
                                     ELSE frk' = frk + 1 /\ UNCHANGED <<copDone, copPc>>
                 ELSE frk' = 0 /\ UNCHANGED <<copDone, copPc>>
            /\ UNCHANGED <<toWrite, pipe, childOpen, shellOpen, exited, pumpPc, chunk, queue, closed, cur, saved, membuf, fpos, lockHeld, closedWriter, mainPc, got, finalReads>>
CopDone == CopCheck

(* ---- Main ---------------------------------------------------------------------------------- *)
\* readlines(hint) from the shared file position; conformant: excluded while the copier holds its lock
ReadLines(unlocked) ==
  /\ mainPc \in {"poll", "final"} /\ (mainPc = "final" => finalReads < 2)      \* the code does two rounds of final reads
  /\ IF unlocked THEN lockHeld ELSE ~lockHeld
  /\ LET avail == SubSeq(membuf, fpos + 1, Len(membuf))
         take == IF mainPc = "poll" THEN Take(avail, Hint) ELSE avail IN
       /\ got' = got \o take /\ fpos' = fpos + Len(take)
  /\ finalReads' = IF mainPc = "final" THEN finalReads + 1 ELSE finalReads
  /\ UNCHANGED <<toWrite, pipe, childOpen, shellOpen, exited, pumpPc, chunk, queue, closed, copPc, cur, saved, membuf, lockHeld, closedWriter, copDone, frk, mainPc>>
MainRead == ReadLines(FALSE)
Dev_UnlockedRead == "Dev_UnlockedRead" \in Deviations /\ ReadLines(TRUE)
\* the polling loop ends when the process object reports the end (child exited and copier finished)
MainProcEnd == /\ mainPc = "poll" /\ exited /\ copDone
               /\ mainPc' = "final"
               /\ UNCHANGED <<toWrite, pipe, childOpen, shellOpen, exited, pumpPc, chunk, queue, closed, copPc, cur, saved, membuf, fpos, lockHeld, closedWriter, copDone, frk, got, finalReads>>
MainDone == /\ mainPc = "final" /\ finalReads >= 1 /\ ~lockHeld
            /\ mainPc' = "done"
            /\ UNCHANGED <<toWrite, pipe, childOpen, shellOpen, exited, pumpPc, chunk, queue, closed, copPc, cur, saved, membuf, fpos, lockHeld, closedWriter, copDone, frk, got, finalReads>>

Next == Write \/ WriterExit \/ PumpRead \/ PumpPut \/ PumpEOF
        \/ CopGet \/ CopTell \/ CopSeekEnd \/ CopWrite \/ CopSeekBack \/ CopProcExit \/ CopDone
        \/ MainRead \/ Dev_UnlockedRead \/ MainProcEnd \/ MainDone

Spec == Init /\ [][Next]_vars /\ WF_vars(Next)
\* fairness per thread for liveness
FairSpec == Init /\ [][Next]_vars
            /\ WF_vars(Write \/ WriterExit) /\ WF_vars(PumpRead \/ PumpPut \/ PumpEOF)
            /\ WF_vars(CopGet \/ CopTell \/ CopSeekEnd \/ CopWrite \/ CopSeekBack \/ CopProcExit \/ CopDone)
            /\ SF_vars(CopGet)      \* every pass of the drain loop reads the queue before it asks "fully read?" again
            /\ WF_vars(MainProcEnd \/ MainDone) /\ WF_vars(ReadLines(FALSE) /\ mainPc = "final")

(* ---- the judgement on what the caller received (used by CaptureObsTrace) ------------------- *)
\* feat: the scenario's features; conformant: every view equals what the final stage wrote.
\* Deviations on the text views only (the raw bytes and the exit code stay right):
ObsDevEnabled(d, feat) ==
  CASE d = "Dev_DecodePerRead" ->       \* escape sequences are stripped from each piece read, not from the stream: one
                                        \* that is split by a read boundary is kept (multi-byte characters and CRLFs split
                                        \* the same way were repaired in /repo 21c8c3c)
         feat.payload = "ansi" /\ feat.multiread /\ feat.view \in {"out", "iter"}   \* multiread: more than one read size, or written in several chunks
    [] d = "Dev_DollarKeepsEscapes" ->  \* $() does not strip terminal escape sequences (the other text views do)
         feat.payload = "ansi" /\ feat.view = "dollar"
    [] OTHER -> FALSE
ObsJudge(feat, rawok, ok) ==
  \/ ok
  \/ \E d \in Deviations : ObsDevEnabled(d, feat) /\ rawok /\ ~ok

(* ---- properties ---------------------------------------------------------------------------- *)
IsPrefix(a, b) == Len(a) <= Len(b) /\ a = SubSeq(b, 1, Len(a))
\* what the caller has received is always a prefix of what was written: no invention, duplication, reordering
PrefixAlways == IsPrefix(got, Payload)
\* at the end nothing is missing
Complete == mainPc = "done" => got = Payload
BufferExact == IsPrefix(membuf, Payload)
\* end of file is never declared while a write end is open or data is in flight
EOFOnlyAfterAll == closed => (pipe = <<>> /\ ~childOpen /\ ~shellOpen /\ toWrite = <<>>)
NoDeadlock == (~ENABLED Next) => mainPc = "done"
Termination == <>(mainPc = "done")
=============================================================================
