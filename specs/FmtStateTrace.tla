--------------------------- MODULE FmtStateTrace ---------------------------
(* Trace validation for FmtState: each trace is one source text (reduced to the features the
   deviations are keyed on) with what the real formatter did: accepted or rejected, output parses to
   the input's tree with the same comments, formatting the output again changes nothing. *)
EXTENDS FmtState, Json, IOUtils, TLCExt

Traces == JsonDeserialize(IOEnv.TRACE_FILE)

VARIABLES tid, l, used
tvars == <<vars, tid, l, used>>

TInit == /\ tid \in 1..Len(Traces) /\ l = 1 /\ used = {}
         /\ input = <<>> /\ level = 0 /\ pos = 1 /\ out = <<>> /\ depth = 0 /\ macroFn = 0 /\ macroLine = FALSE /\ subproc = FALSE
         /\ lineStart = TRUE /\ pending = 0 /\ pass = 1 /\ first = <<>>
         /\ res = [accepted |-> TRUE, same |-> TRUE, idem |-> TRUE, dev |-> ""] /\ phase = "idle"

TStep ==
  /\ l <= Len(Traces[tid].steps)
  /\ LET e == Traces[tid].steps[l] IN
       /\ Format(Traces[tid].feat, e.obs.accepted)
       /\ res'.same = e.obs.same /\ res'.idem = e.obs.idem
       /\ used' = IF res'.dev = "" THEN used ELSE used \cup {res'.dev}
  /\ l' = l + 1 /\ tid' = tid

TSpec == TInit /\ [][TStep]_tvars

Report == /\ PrintT(<<"P", tid, l>>)
          /\ (l > Len(Traces[tid].steps) => PrintT(<<"D", tid, ToJson(used)>>))
=============================================================================
