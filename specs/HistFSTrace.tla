---------------------------- MODULE HistFSTrace ----------------------------
(* Trace validation for HistFS: the file-system operations recorded while a real history operation
   runs (with a kill or a failing call injected at a chosen point), followed by what was found on
   disk afterwards. *)
EXTENDS HistFS, Json, IOUtils, TLCExt

Traces == JsonDeserialize(IOEnv.TRACE_FILE)

VARIABLES tid, l, used
tvars == <<vars, tid, l, used>>

TInit == /\ tid \in 1..Len(Traces) /\ l = 1 /\ used = {} /\ Init

TStep ==
  /\ l <= Len(Traces[tid].steps)
  /\ LET e == Traces[tid].steps[l] IN
       /\ \/ e.cmd = "mkstemp" /\ MkTmp(e.t)
          \/ e.cmd = "write" /\ WriteTmp(e.t)
          \/ e.cmd = "close" /\ CloseTmp(e.t)
          \/ e.cmd = "failtmp" /\ FailTmp(e.t)
          \/ e.cmd = "replace" /\ Replace(e.t, e.f)
          \/ e.cmd = "unlink" /\ UnlinkTmp(e.t)
          \/ e.cmd = "remove" /\ RemoveFile(e.f)
          \/ e.cmd = "opentrunc" /\ OpenTrunc(e.f)
          \/ e.cmd = "writeinplace" /\ WriteInPlace(e.f)
          \/ e.cmd = "closeinplace" /\ CloseInPlace(e.f)
          \/ e.cmd = "failinplace" /\ FailInPlace(e.f)
          \/ e.cmd = "sql" /\ SqlStmt
          \/ e.cmd = "commit" /\ Commit
          \/ e.cmd = "sqldone" /\ SqlDone
          \/ e.cmd = "crash" /\ Crash
          \/ \* what the parent found on disk after the kill / the failed call
             /\ e.cmd = "observe" /\ UNCHANGED vars
             /\ \A f \in DOMAIN e.found : e.found[f] = "untouched" \/ e.found[f] = (IF file[f] = "broken" THEN "torn" ELSE file[f])
       /\ used' = IF e.cmd = "observe" \/ res'.dev = "" THEN used ELSE used \cup {res'.dev}
  /\ l' = l + 1 /\ tid' = tid

TSpec == TInit /\ [][TStep]_tvars

Report == /\ PrintT(<<"P", tid, l>>)
          /\ (l > Len(Traces[tid].steps) => PrintT(<<"D", tid, ToJson(used)>>))
=============================================================================
