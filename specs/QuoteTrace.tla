----------------------------- MODULE QuoteTrace -----------------------------
(* Trace validation for Quote: each trace is one (name, opening style) with whether executing the
   completed line delivered exactly the name as one argument. *)
EXTENDS Quote, Json, IOUtils, TLCExt

Traces == JsonDeserialize(IOEnv.TRACE_FILE)

VARIABLES tid, l, used
tvars == <<vars, tid, l, used>>

TInit == /\ tid \in 1..Len(Traces) /\ l = 1 /\ used = {} /\ Init

TStep ==
  /\ l <= Len(Traces[tid].steps)
  /\ LET e == Traces[tid].steps[l] IN
       /\ IF Traces[tid].kind = "analyse"
            THEN Analyse(Traces[tid].feat, e.obs.ok)
            ELSE Complete(Traces[tid].name, Traces[tid].open, Traces[tid].typed, Traces[tid].closing) /\ res'.ok = e.obs.ok
       /\ used' = IF res'.dev = "" THEN used ELSE used \cup {res'.dev}
  /\ l' = l + 1 /\ tid' = tid

TSpec == TInit /\ [][TStep]_tvars

Report == /\ PrintT(<<"P", tid, l>>)
          /\ (l > Len(Traces[tid].steps) => PrintT(<<"D", tid, ToJson(used)>>))
=============================================================================
