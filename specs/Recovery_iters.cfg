SPECIFICATION Spec
CONSTANTS
  MaxLines = 1
  MaxCol = 0
  BudgetBase = 0
  Deviations = {}
INVARIANT BoundedIterations
INVARIANT ExitKinds
CHECK_DEADLOCK FALSE
