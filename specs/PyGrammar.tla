------------------------------ MODULE PyGrammar ------------------------------
(* C01: every valid Python program parses to CPython's syntax tree.

   The universe of programs is the set of derivations over named productions of the Python 3.12
   grammar (module PyGrammarProds, generated from harness/pygrammar.py): a root production, optionally
   one of its slots filled by a child production whose first slot may in turn hold a grandchild, a
   layout and a parse mode.  This module defines which derivations are well formed (slot kinds), checks
   that the tables cover what they claim, and states the judgement the traces are validated against:
   whenever CPython accepts the rendered text, xonsh accepts it, builds the same tree and the tree
   compiles.  Which of the two parsers is right is decided by CPython itself, not by this model.

   Known defects of the pinned parser are data (module PyGrammarKnown, generated from the committed
   known-findings file): a failing derivation is explained only if it contains a listed production,
   a listed (parent, slot, child) nesting, a listed (production, layout, mode) combination or is a
   listed depth-3 derivation; anything else that fails has no matching action. *)
EXTENDS Naturals, Sequences, FiniteSets, TLC, PyGrammarProds, PyGrammarKnown

CONSTANTS Deviations

Prods == ExprProds \cup TargetProds \cup StmtProds \cup CompoundProds
Slots == {"E", "E2", "T", "B", "BB"}
Modes == {"exec", "eval", "single"}

Has(s) == CASE s = "E" -> HasE [] s = "E2" -> HasE2 [] s = "T" -> HasT [] s = "B" -> HasB [] s = "BB" -> HasBB
Fits(s, c) == CASE s \in {"E", "E2"} -> c \in ExprProds
                [] s = "T" -> c \in TargetProds
                [] s \in {"B", "BB"} -> c \in StmtProds \cup CompoundProds
FirstSlot(p) == IF p \in HasE THEN "E" ELSE IF p \in HasE2 THEN "E2" ELSE IF p \in HasT THEN "T" ELSE IF p \in HasB THEN "B" ELSE IF p \in HasBB THEN "BB" ELSE ""

\* A statement of the corpus (CPython's own syntax tests, read from the installed interpreter at check
\* time) is a derivation too: its root is "Corpus" and its `layout` field holds the key of the text.
IsCorpus(d) == d.root = "Corpus" /\ d.slot = "" /\ d.child = "" /\ d.grand = "" /\ d.mode = "exec"
WellFormed(d) ==
  \/ IsCorpus(d)
  \/ /\ d.root \in Prods /\ d.layout \in Layouts /\ d.mode \in Modes
     /\ IF d.slot = "" THEN d.child = "" /\ d.grand = ""
        ELSE /\ d.slot \in Slots /\ d.root \in Has(d.slot) /\ d.child \in Prods /\ Fits(d.slot, d.child)
             /\ (d.grand # "" => FirstSlot(d.child) # "" /\ d.grand \in Prods /\ Fits(FirstSlot(d.child), d.grand))
     \* eval mode parses expressions only
     /\ (d.mode = "eval" => d.root \in ExprProds)

Explained(d) ==
  \/ \E n \in {d.root, d.child, d.grand} : n \in KnownProds \/ <<n, d.layout, d.mode>> \in KnownLayouts
  \/ d.slot # "" /\ <<d.root, d.slot, d.child>> \in KnownPairs
  \/ d.grand # "" /\ <<d.child, FirstSlot(d.child), d.grand>> \in KnownPairs
  \/ d.grand # "" /\ <<d.root, d.slot, d.child, d.grand, d.layout>> \in KnownTriples

VARIABLES deriv, res, phase
vars == <<deriv, res, phase>>

NoDeriv == [root |-> "", slot |-> "", child |-> "", grand |-> "", layout |-> "plain", mode |-> "exec"]
Init == deriv = NoDeriv /\ res = [ok |-> TRUE, dev |-> ""] /\ phase = "idle"

\* cpy: CPython accepts the rendered text (an observation); ok: xonsh accepts, same tree, compiles
Judge(d, cpy) ==
  /\ phase = "idle" /\ WellFormed(d) /\ cpy \in BOOLEAN
  /\ deriv' = d /\ phase' = "judged"
  /\ \/ res' = [ok |-> TRUE, dev |-> ""]                 \* (nothing is required of texts CPython rejects)
     \/ ~cpy /\ res' = [ok |-> FALSE, dev |-> ""]
     \/ /\ "Dev_KnownDerivation" \in Deviations /\ cpy /\ Explained(d)
        /\ res' = [ok |-> FALSE, dev |-> "Dev_KnownDerivation"]

\* model-checking universe: every production alone and every (parent, slot, child) nesting
\* (the quantifier ranges mention a variable on purpose: TLC splits the next-state relation into one
\*  action per element of a constant range at start-up, and evaluates constant definitions eagerly)
D(r, s, c) == [root |-> r, slot |-> s, child |-> c, grand |-> "", layout |-> "plain", mode |-> "exec"]
When(S) == IF phase = "idle" THEN S ELSE {}
Next == \/ \E r \in When(Prods) : Judge(D(r, "", ""), TRUE)
        \/ \E s \in When(Slots) : \E r \in When(Has(s)) : \E c \in When(Prods) : Fits(s, c) /\ Judge(D(r, s, c), TRUE)
Spec == Init /\ [][Next]_vars

(* ---- properties / table sanity ------------------------------------------------------------- *)
SameTree == phase = "judged" => res.ok
Disjoint == /\ ExprProds \cap TargetProds = {} /\ ExprProds \cap (StmtProds \cup CompoundProds) = {}
            /\ TargetProds \cap (StmtProds \cup CompoundProds) = {} /\ StmtProds \cap CompoundProds = {}
\* every slot of every production has a fitting child; blocks only in compound statements; known data refers to real productions
ASSUME Disjoint
ASSUME ExprProds # {} /\ TargetProds # {} /\ StmtProds # {} /\ CompoundProds # {}
ASSUME LET P == Prods IN /\ HasE \subseteq P /\ HasE2 \subseteq P /\ HasT \subseteq P /\ HasB \subseteq P /\ HasBB \subseteq P
                         /\ KnownProds \subseteq P
                         /\ (Where_def \cup Where_async \cup Where_loop \cup Where_nested) \subseteq P
                         /\ \A t \in KnownPairs : t[1] \in P /\ t[3] \in P /\ t[2] \in Slots
ASSUME "Corpus" \notin Prods
ASSUME (HasB \cup HasBB) \subseteq CompoundProds
ASSUME HasT \subseteq (StmtProds \cup CompoundProds)
=============================================================================
