---------------------------- MODULE AliasTrace ----------------------------
(* Trace validation for Alias: recorded define/remove/query sequences on the real
   xonsh Aliases table; every query result (Aliases.get and SubprocSpec.build) must equal the
   reference expansion. *)
EXTENDS Alias, Json, IOUtils, TLCExt

Traces == JsonDeserialize(IOEnv.TRACE_FILE)

VARIABLES tid, l, used
tvars == <<vars, tid, l, used>>

TInit == /\ tid \in 1..Len(Traces) /\ l = 1 /\ used = {} /\ Init

TStep ==
  /\ l <= Len(Traces[tid].steps)
  /\ LET e == Traces[tid].steps[l] IN
       \/ /\ e.cmd = "define" /\ e.name \in Names
          /\ table' = [table EXCEPT ![e.name] = e.body]
          /\ UNCHANGED <<st, act, res>>
       \/ /\ e.cmd = "remove" /\ Undefine(e.name)
       \/ /\ e.cmd = "query" /\ Query(e.line)
          /\ res'.found = e.obs.found
          /\ res'.out = e.obs.out /\ res'.decs = e.obs.decs
          /\ (e.obs.found => (res'.out = e.obs.spec_out /\ res'.decs = e.obs.spec_decs))
  /\ l' = l + 1 /\ tid' = tid /\ used' = used

TSpec == TInit /\ [][TStep]_tvars

Report == /\ PrintT(<<"P", tid, l>>)
          /\ (l > Len(Traces[tid].steps) => PrintT(<<"D", tid, ToJson(used)>>))
=============================================================================
