--------------------------- MODULE CodeCacheTrace ---------------------------
(* Trace validation for CodeCache: recorded edit/touch/run/damage histories on the real
   run_script_with_cache / run_code_with_cache. *)
EXTENDS CodeCache, Json, IOUtils, TLCExt

Traces == JsonDeserialize(IOEnv.TRACE_FILE)

VARIABLES tid, l, used
tvars == <<vars, tid, l, used>>

TInit == /\ tid \in 1..Len(Traces) /\ l = 1 /\ used = {} /\ Init /\ sw = Traces[tid].sw

TStep ==
  /\ l <= Len(Traces[tid].steps)
  /\ LET e == Traces[tid].steps[l] IN
       /\ \/ e.cmd = "tick" /\ Tick
          \/ e.cmd = "editat" /\ EditAt(e.a)
          \/ e.cmd = "relink" /\ Relink
          \/ e.cmd = "touch" /\ Touch
          \/ e.cmd = "damage" /\ Damage(e.a)
          \/ e.cmd = "switch" /\ SetSwitches(e.sw)
          \/ e.cmd = "runscript" /\ RunScript /\ res'.ran = e.obs.ran /\ res'.fatal = e.obs.fatal
          \/ e.cmd = "runcode" /\ RunCode(e.a, e.b, e.c)
               /\ res'.ctx = e.obs.ctx /\ ((e.obs.ctx /\ ~e.obs.fatal) => res'.mode = e.obs.mode) /\ res'.fatal = e.obs.fatal
          \/ e.cmd = "damagecode" /\ DamageCode(e.a, e.c, e.b)
       /\ used' = IF res'.dev = "" THEN used ELSE used \cup {res'.dev}
  /\ l' = l + 1 /\ tid' = tid

TSpec == TInit /\ [][TStep]_tvars

Report == /\ PrintT(<<"P", tid, l>>)
          /\ (l > Len(Traces[tid].steps) => PrintT(<<"D", tid, ToJson(used)>>))
=============================================================================
