------------------------------- MODULE Jobs -------------------------------
(* C20: the job table is consistent with the processes it tracks.

   The registry is two structures that the code updates separately - a dictionary
   number -> job (`tab`) and a most-recently-used order (`tasks`) - and purges lazily
   (`_clear_dead_jobs`).  `alive` is the environment: which job processes have not terminated.
   One action per command invocation / process event.  Commands may be issued from the main
   thread or from an alias thread (through use_main_jobs): same semantics, the thread is part
   of the action label only.  *)
EXTENDS Naturals, Sequences, FiniteSets, SequencesExt, FiniteSetsExt, TLC

CONSTANTS MaxJobs, Deviations

DevNames == {"Dev_DisownPartial"}

VARIABLES tab,    \* [Nums -> [present, bg, status]]
          tasks,  \* MRU order, most recent first
          alive,  \* numbers whose process is still running or stopped
          act, res

vars == <<tab, tasks, alive, act, res>>
view == <<tab, tasks, alive>>

Nums == 1..MaxJobs
Absent == [present |-> FALSE, bg |-> FALSE, status |-> "none"]
Job(b, s) == [present |-> TRUE, bg |-> b, status |-> s]
Present(tb) == {n \in Nums : tb[n].present}

\* _clear_dead_jobs: walks `tasks`, drops the finished ones from both structures
PurgedTasks == SelectSeq(tasks, LAMBDA n : n \in alive)
PurgedTab == [n \in Nums |-> IF n \in Range(tasks) /\ n \notin alive THEN Absent ELSE tab[n]]
Without(t, n) == SelectSeq(t, LAMBDA m : m # n)

Args == {[kind |-> k, n |-> 0] : k \in {"none", "plus", "minus", "junk", "two"}}
          \cup {[kind |-> "num", n |-> n] : n \in 0..(MaxJobs + 1)}
IdLists == {<<>>} \cup {<<n>> : n \in 1..(MaxJobs + 1)}
             \cup {<<n, m>> : n \in 1..(MaxJobs + 1), m \in 1..(MaxJobs + 1)}
Threads == {"main", "alias"}

NoRes == [failed |-> FALSE, out |-> <<>>, sel |-> 0, dev |-> ""]
Label(cmd, arg, ids, thr) == [cmd |-> cmd, arg |-> arg, ids |-> ids, thr |-> thr]
NoArg == [kind |-> "none", n |-> 0]

\* ------------------------------- environment ---------------------------------------------
StartAs(b, cmd, kind) ==
  LET t == PurgedTasks  tb == PurgedTab  free == Nums \ Present(tb) IN
  /\ free # {}
  /\ LET n == Min(free) IN
       /\ tab' = [tb EXCEPT ![n] = Job(b, "running")]
       /\ tasks' = <<n>> \o t
       /\ alive' = alive \cup {n}
       /\ act' = Label(cmd, [kind |-> kind, n |-> 0], <<>>, "main")
       /\ res' = [NoRes EXCEPT !.sel = n]

Start(b) == StartAs(b, "start", IF b THEN "bg" ELSE "fg")

\* a background pipeline started through the real subprocess machinery: every pipeline with at
\* least one real process is registered (whatever the position of alias stages); a pipeline made
\* of callable aliases only is not a job
PipeKinds == {"proc", "proc|proc", "proc|alias", "alias|proc", "alias"}
StartPipeline(kind) ==
  IF kind = "alias"
  THEN /\ act' = Label("startreal", [kind |-> kind, n |-> 0], <<>>, "main") /\ res' = NoRes
       /\ UNCHANGED <<tab, tasks, alive>>
  ELSE StartAs(TRUE, "startreal", kind)

\* registration interrupted by a fault (the announcement of the new job cannot be printed):
\* the job is registered in both structures or in neither
StartFaulty ==
  \/ StartAs(TRUE, "startfaulty", "bg")
  \/ /\ act' = Label("startfaulty", [kind |-> "bg", n |-> 0], <<>>, "main") /\ res' = NoRes
     /\ tab' = PurgedTab /\ tasks' = PurgedTasks /\ UNCHANGED alive

ProcExit(n) == /\ n \in alive
               /\ alive' = alive \ {n}
               /\ act' = Label("exit", [kind |-> "num", n |-> n], <<>>, "main") /\ res' = NoRes
               /\ UNCHANGED <<tab, tasks>>

\* what proc_untraced_waitpid records when the process is stopped (ctrl-z / SIGTSTP)
ProcStop(n) == /\ n \in alive /\ tab[n].present /\ tab[n].status = "running"
               /\ tab' = [tab EXCEPT ![n] = Job(TRUE, "stopped")]
               /\ act' = Label("stop", [kind |-> "num", n |-> n], <<>>, "main") /\ res' = NoRes
               /\ UNCHANGED <<tasks, alive>>

\* ------------------------------- commands ------------------------------------------------
JobsCmd(thr) == /\ tab' = PurgedTab /\ tasks' = PurgedTasks
                /\ act' = Label("jobs", NoArg, <<>>, thr)
                /\ res' = [NoRes EXCEPT !.out = PurgedTasks]
                /\ UNCHANGED alive

\* which job `fg`/`bg` select: 0 = erroneous invocation
Select(a, t, tb) ==
  CASE t = <<>> -> 0
    [] a.kind \in {"none", "plus"} -> t[1]
    [] a.kind = "minus" -> IF Len(t) >= 2 THEN t[2] ELSE 0
    [] a.kind = "num" -> IF a.n \in Nums /\ tb[a.n].present THEN a.n ELSE 0
    [] OTHER -> 0

Resume(cmd, a, thr) ==
  LET t == PurgedTasks  tb == PurgedTab  tid == Select(a, t, tb) IN
  /\ act' = Label(cmd, a, <<>>, thr)
  /\ UNCHANGED alive
  /\ IF tid = 0
     THEN tab' = tb /\ tasks' = t /\ res' = [NoRes EXCEPT !.failed = TRUE]
     ELSE /\ tasks' = <<tid>> \o Without(t, tid)
          /\ tab' = [tb EXCEPT ![tid] = Job(cmd = "bg", "running")]
          /\ res' = [NoRes EXCEPT !.sel = tid]

Fg(a) == Resume("fg", a, "main")        \* fg is unthreadable: always on the main thread
Bg(a, thr) == Resume("bg", a, thr)

RECURSIVE RemoveAll(_, _, _)
\* disown the ids one after the other; result [ok, tab, tasks]
RemoveAll(ids, tb, t) ==
  IF ids = <<>> THEN [ok |-> TRUE, tab |-> tb, tasks |-> t]
  ELSE LET n == Head(ids) IN
       IF n \in Nums /\ tb[n].present
       THEN RemoveAll(Tail(ids), [tb EXCEPT ![n] = Absent], Without(t, n))
       ELSE [ok |-> FALSE, tab |-> tb, tasks |-> t]

\* disown may or may not purge finished jobs first (the property leaves that open)
Disown(ids, thr, purge) ==
  LET t == IF purge THEN PurgedTasks ELSE tasks
      tb == IF purge THEN PurgedTab ELSE tab
      eff == IF ids = <<>> /\ t # <<>> THEN <<t[1]>> ELSE ids
      r == RemoveAll(eff, tb, t)
  IN
  /\ act' = Label("disown", NoArg, ids, thr)
  /\ UNCHANGED alive
  /\ \/ /\ t # <<>> /\ r.ok
        /\ tab' = r.tab /\ tasks' = r.tasks /\ res' = NoRes
     \/ /\ t = <<>> \/ ~r.ok
        /\ tab' = tb /\ tasks' = t /\ res' = [NoRes EXCEPT !.failed = TRUE]
     \/ /\ "Dev_DisownPartial" \in Deviations /\ t # <<>> /\ ~r.ok /\ r.tab # tb
        /\ tab' = r.tab /\ tasks' = r.tasks
        /\ res' = [NoRes EXCEPT !.failed = TRUE, !.dev = "Dev_DisownPartial"]

Init == /\ tab = [n \in Nums |-> Absent] /\ tasks = <<>> /\ alive = {}
        /\ act = Label("init", NoArg, <<>>, "main") /\ res = NoRes

Next == \/ \E b \in BOOLEAN : Start(b)
        \/ \E k \in PipeKinds : StartPipeline(k)
        \/ StartFaulty
        \/ \E n \in Nums : ProcExit(n) \/ ProcStop(n)
        \/ \E thr \in Threads : JobsCmd(thr)
        \/ \E a \in Args : Fg(a)
        \/ \E a \in Args, thr \in Threads : Bg(a, thr)
        \/ \E ids \in IdLists, thr \in Threads, p \in BOOLEAN : Disown(ids, thr, p)

Spec == Init /\ [][Next]_vars

\* ------------------------------- the property --------------------------------------------
TypeOK == /\ tab \in [Nums -> [present : BOOLEAN, bg : BOOLEAN, status : {"none", "running", "stopped"}]]
          /\ alive \subseteq Nums

\* the MRU order is a permutation of exactly the registered jobs
TasksPerm == /\ Range(tasks) = Present(tab)
             /\ Len(tasks) = Cardinality(Range(tasks))

\* finished jobs are gone after every purge point
\* (a pipeline of callable aliases only is not registered and purges nothing)
PurgePoint == act.cmd \in {"jobs", "fg", "bg", "start", "startfaulty"} \/ (act.cmd = "startreal" /\ act.arg.kind # "alias")
NoDeadAfterPurge == [][PurgePoint' => Present(tab') \subseteq alive']_vars

\* `jobs` lists every live job exactly once
JobsListsLive == [][act'.cmd = "jobs" =>
                   /\ Range(res'.out) = Present(tab') /\ Len(res'.out) = Cardinality(Present(tab'))]_vars

\* numbers are the lowest free ones
LowestFree == [][ (act'.cmd \in {"start", "startreal", "startfaulty"} /\ res'.sel # 0) =>
                    /\ res'.sel \notin Present(PurgedTab)
                    /\ \A m \in 1..(res'.sel - 1) : m \in Present(PurgedTab) ]_vars

\* an erroneous invocation leaves the table as it was (apart from dropping finished jobs)
ErrorAltersNothing ==
  [][ res'.failed => \/ (tab' = tab /\ tasks' = tasks)
                     \/ (tab' = PurgedTab /\ tasks' = PurgedTasks) ]_vars

\* selection rule of fg/bg: none/+ = MRU head, - = second, N = that job
SelectionRule ==
  [][ (act'.cmd \in {"fg", "bg"} /\ ~res'.failed) =>
        /\ res'.sel = Select(act'.arg, PurgedTasks, PurgedTab)
        /\ Head(tasks') = res'.sel /\ tab'[res'.sel].status = "running"
        /\ tab'[res'.sel].bg = (act'.cmd = "bg") ]_vars

Bounded == TRUE
=============================================================================
