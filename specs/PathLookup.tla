----------------------------- MODULE PathLookup -----------------------------
(* C08: command lookup equals a POSIX $PATH search and never goes stale.

   File system: directories D1, D2 and the current directory CW; in each, the command name `n`
   is absent, an executable file, a non-executable file or a directory of that name.
   $PATH is a sequence of entries: "D1", "D2", "L" (a symlink to D1 that can be re-pointed to D2), "M" (a missing directory),
   "E" (the empty entry = current directory in POSIX).
   The commands cache, as implemented: per directory a listing of executable names taken when the
   directory's mtime last differed (`listed`, `fresh` = no create/delete since then - chmod does
   not touch the directory mtime), and the merged name -> directory map `cmds` that is rebuilt only
   when some listing was refreshed. *)
EXTENDS Naturals, Sequences, FiniteSets, SequencesExt, TLC

CONSTANTS MaxPath, Deviations

DevNames == {"Dev_PathEditUnnoticed", "Dev_ChmodUnnoticed"}

VARIABLES fs, path, link, listed, fresh, cmds, act, res
vars == <<fs, path, link, listed, fresh, cmds, act, res>>
view == <<fs, path, link, listed, fresh, cmds>>

Dirs == {"D1", "D2", "CW"}
Entries == {"D1", "D2", "L", "M", "E"}
Kinds == {"absent", "exec", "nonexec", "dirn"}
\* the real directory an entry of $PATH denotes ("" = none)
Real(e) == CASE e = "D1" -> "D1" [] e = "D2" -> "D2" [] e = "L" -> link [] e = "E" -> "CW" [] OTHER -> ""

\* ---------------------------- truth: the POSIX search -------------------------------------
RECURSIVE Which(_)
Which(p) == IF p = <<>> THEN "none"
            ELSE IF Real(Head(p)) # "" /\ fs[Real(Head(p))] = "exec" THEN Real(Head(p))
            ELSE Which(Tail(p))
PosixWhich == Which(path)

\* xonsh's effective search list: real directories, first occurrence only
RECURSIVE Uniq(_, _)
Uniq(p, seen) == IF p = <<>> THEN <<>>
                 ELSE LET d == Real(Head(p)) IN
                      IF d = "" \/ d \in seen THEN Uniq(Tail(p), seen) ELSE <<d>> \o Uniq(Tail(p), seen \cup {d})
Search == Uniq(path, {})

Lab(cmd, a, b) == [cmd |-> cmd, a |-> a, b |-> b]
NoRes == [loc |-> "", cached |-> "", inn |-> FALSE, listing |-> FALSE, dev |-> ""]

\* ---------------------------- the file system and $PATH -----------------------------------
\* create / delete: the directory's mtime changes
Create(d, k) == /\ fs[d] = "absent" /\ k \in Kinds \ {"absent"}
                /\ fs' = [fs EXCEPT ![d] = k] /\ fresh' = [fresh EXCEPT ![d] = FALSE]
                /\ act' = Lab("create", d, k) /\ res' = NoRes /\ UNCHANGED <<path, link, listed, cmds>>
Delete(d) == /\ fs[d] # "absent"
             /\ fs' = [fs EXCEPT ![d] = "absent"] /\ fresh' = [fresh EXCEPT ![d] = FALSE]
             /\ act' = Lab("delete", d, "") /\ res' = NoRes /\ UNCHANGED <<path, link, listed, cmds>>
\* chmod +x / -x: the directory's mtime does not change
Chmod(d) == /\ fs[d] \in {"exec", "nonexec"}
            /\ fs' = [fs EXCEPT ![d] = IF @ = "exec" THEN "nonexec" ELSE "exec"]
            /\ act' = Lab("chmod", d, "") /\ res' = NoRes /\ UNCHANGED <<path, link, listed, fresh, cmds>>
SetPath(p) == /\ p # path /\ path' = p
              /\ act' = Lab("setpath", "", "") /\ res' = NoRes /\ UNCHANGED <<fs, link, listed, fresh, cmds>>

\* the symlinked $PATH entry is re-pointed (`current -> v2`); no directory of the model changes
Relink == /\ link' = IF link = "D1" THEN "D2" ELSE "D1"
          /\ act' = Lab("relink", "", "") /\ res' = NoRes /\ UNCHANGED <<fs, path, listed, fresh, cmds>>

\* ---------------------------- lookups ---------------------------------------------------------
\* the uncached ordered scan (locate_executable, what a spawn uses)
Locate == /\ act' = Lab("locate", "", "") /\ res' = [NoRes EXCEPT !.loc = PosixWhich]
          /\ UNCHANGED <<fs, path, link, listed, fresh, cmds>>

\* update_cache as implemented: refresh stale listings of the searched directories; rebuild the
\* merged map only if something was refreshed (or, conformant, if $PATH itself changed)
Refreshed == {d \in Range(Search) : ~fresh[d] \/ listed[d] = "unlisted"}
NewListed == [d \in Dirs |-> IF d \in Refreshed THEN (IF fs[d] = "exec" THEN "has" ELSE "hasnot") ELSE listed[d]]
RECURSIVE FirstHas(_, _)
FirstHas(s, l) == IF s = <<>> THEN "none" ELSE IF l[Head(s)] = "has" THEN Head(s) ELSE FirstHas(Tail(s), l)

CacheQuery ==
  LET c == FirstHas(Search, NewListed)     \* what the mtime-keyed listings give for this $PATH
      upd == [d \in Dirs |-> IF d \in Refreshed THEN TRUE ELSE fresh[d]]
  IN
  /\ act' = Lab("query", "", "")
  /\ UNCHANGED <<fs, path, link>>
  /\ \/ \* the listings are accurate: every view of the cache agrees with the file system
        /\ c = PosixWhich
        /\ listed' = NewListed /\ fresh' = upd /\ cmds' = c
        /\ res' = [NoRes EXCEPT !.cached = c, !.inn = (c # "none"), !.listing = (c # "none")]
     \/ \* a listing is out of date (chmod): a conformant cache notices and re-reads the directories
        /\ c # PosixWhich
        /\ listed' = [d \in Dirs |-> IF d \in Range(Search) THEN (IF fs[d] = "exec" THEN "has" ELSE "hasnot") ELSE NewListed[d]]
        /\ fresh' = [d \in Dirs |-> IF d \in Range(Search) THEN TRUE ELSE fresh[d]]
        /\ cmds' = PosixWhich
        /\ res' = [NoRes EXCEPT !.cached = PosixWhich, !.inn = (PosixWhich # "none"), !.listing = (PosixWhich # "none")]
     \/ \* chmod does not change the directory mtime: the listing stays as it was
        /\ "Dev_ChmodUnnoticed" \in Deviations
        /\ c # PosixWhich
        /\ listed' = NewListed /\ fresh' = upd /\ cmds' = c
        /\ res' = [NoRes EXCEPT !.cached = c, !.inn = (c # "none"), !.listing = (c # "none"), !.dev = "Dev_ChmodUnnoticed"]
     \/ \* an edit of $PATH (reorder / removal) with unchanged directory mtimes is not noticed
        /\ "Dev_PathEditUnnoticed" \in Deviations
        /\ Refreshed = {} /\ cmds # c
        /\ UNCHANGED <<listed, fresh, cmds>>
        /\ res' = [NoRes EXCEPT !.cached = cmds, !.inn = (cmds # "none"), !.listing = (cmds # "none"), !.dev = "Dev_PathEditUnnoticed"]

\* (an empty $PATH is left out: POSIX leaves its meaning to the implementation)
Paths == UNION {[1..n -> Entries] : n \in 1..MaxPath}

Init == /\ fs = [d \in Dirs |-> "absent"] /\ path \in Paths /\ link = "D1"
        /\ listed = [d \in Dirs |-> "unlisted"] /\ fresh = [d \in Dirs |-> FALSE] /\ cmds = "none"
        /\ act = Lab("init", "", "") /\ res = NoRes

Next == \/ \E d \in Dirs, k \in Kinds : Create(d, k)
        \/ \E d \in Dirs : Delete(d) \/ Chmod(d)
        \/ \E p \in Paths : SetPath(p)
        \/ Locate \/ CacheQuery \/ Relink

Spec == Init /\ [][Next]_vars

\* ---------------------------- the property -----------------------------------------------
\* a bare name runs the first executable regular file along $PATH - the current directory only
\* through an explicit empty entry
LocateIsPosix == [][act'.cmd = "locate" => res'.loc = PosixWhich]_vars
NeverFromCwdImplicitly == [][(act'.cmd \in {"locate", "query"} /\ ~\E i \in 1..Len(path) : path[i] = "E")
                               => (res'.loc # "CW" /\ res'.cached # "CW")]_vars
\* every view of the available commands agrees with the file system, after any history
CacheNeverStale == [][act'.cmd = "query" =>
                        /\ res'.cached = PosixWhich /\ res'.inn = (PosixWhich # "none")
                        /\ res'.listing = (PosixWhich # "none")]_vars
=============================================================================
