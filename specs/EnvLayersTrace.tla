-------------------------- MODULE EnvLayersTrace --------------------------
(* Trace validation for EnvLayers: recorded operation sequences on a real Env (two threads),
   with every read path sampled in both threads after each step. *)
EXTENDS EnvLayers, Json, IOUtils, TLCExt

Traces == JsonDeserialize(IOEnv.TRACE_FILE)

VARIABLES tid, l, used
tvars == <<vars, tid, l, used>>

TInit == /\ tid \in 1..Len(Traces) /\ l = 1 /\ used = {} /\ Init

\* the sampled read paths of thread t agree with the state after the step
ViewsMatch(e) ==
  \A t \in Threads, k \in Keys :
    LET o == e.obs.views[t][k] IN
    /\ GetItem(t, k)' = o.item
    /\ Contains(t, k)' = o.has
    /\ o.get = (IF GetItem(t, k)' = "KeyError" THEN "<none>" ELSE GetItem(t, k)')

\* iteration: must agree with membership; the pinned code ignores values supplied by overlays
IterMatch(e) ==
  LET ideal == \A t \in Threads, k \in Keys : e.obs.views[t][k].iter = InIter(t, k)'
      impl == \A t \in Threads, k \in Keys : e.obs.views[t][k].iter = InIterImpl(t, k)'
  IN IF ideal THEN used' = used \cup (IF res'.dev = "" THEN {} ELSE {res'.dev})
     ELSE /\ "Dev_IterIgnoresOverlayValue" \in Deviations /\ impl
          /\ used' = used \cup {"Dev_IterIgnoresOverlayValue"} \cup (IF res'.dev = "" THEN {} ELSE {res'.dev})

TStep ==
  /\ l <= Len(Traces[tid].steps)
  /\ LET e == Traces[tid].steps[l] IN
       /\ \/ e.cmd = "enter" /\ SwapEnter(e.t, e.m, e.o, e.withOvl)
          \/ e.cmd = "exit" /\ SwapExit(e.t, e.v)
          \/ e.cmd = "set" /\ Set(e.t, e.k, e.v)
          \/ e.cmd = "del" /\ Del(e.t, e.k)
          \/ e.cmd = "ovlset" /\ OvlSet(e.t, e.k, e.v)
          \/ e.cmd = "detype" /\ Detype(e.t)
          \/ e.cmd = "inherit" /\ Inherit(e.v, e.t)
          \/ e.cmd = "drop" /\ Drop(e.t)
          \/ e.cmd = "respawn" /\ Respawn(e.t)
       /\ ViewsMatch(e)
       /\ res'.err = e.obs.err
       /\ (e.cmd = "detype" => res'.out = e.obs.out)
       /\ IterMatch(e)
  /\ l' = l + 1 /\ tid' = tid

TSpec == TInit /\ [][TStep]_tvars

Report == /\ PrintT(<<"P", tid, l>>)
          /\ (l > Len(Traces[tid].steps) => PrintT(<<"D", tid, ToJson(used)>>))
=============================================================================
