SPECIFICATION Spec
CONSTANTS
  Files = {"f1", "f2", "db"}
  Tmps = {"t1", "t2"}
  Deviations = {}
VIEW view
INVARIANT Atomic
CHECK_DEADLOCK FALSE
