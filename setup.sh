#!/bin/sh
# Offline setup: nothing to build; verify the tools the checks need are present.
set -e
cd "$(dirname "$0")"
test -x /venv/bin/python
java -version >/dev/null 2>&1
test -f /opt/veriftools/tla/tla2tools.jar
PYTHONPATH=/repo /venv/bin/python -c "import xonsh, sys; assert xonsh.__file__.startswith('/repo/'), xonsh.__file__"
mkdir -p evidence
echo setup ok
