#!/usr/bin/env python3
"""Regenerates specs/PyGrammarProds.tla from harness/pygrammar.py (the one source of truth)."""
import os, sys
sys.path.insert(0, os.path.dirname(os.path.dirname(os.path.abspath(__file__))))
from harness.checks import c01
open(os.path.join(os.path.dirname(os.path.dirname(os.path.abspath(__file__))), "specs", "PyGrammarProds.tla"), "w").write(c01.prods_module())
print("written")
