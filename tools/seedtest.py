#!/usr/bin/env python3
"""Development tool: confirm a seeded change (patch + demo) in its scratch worktree, store it under
/verif/seeded/<id>/, then apply it to /repo, run the property's check and undo it straight afterwards.

usage: seedtest.py <property> <seed dir> <seed id> [--tests "tests/a.py tests/b.py"] [--tier quick] [--no-confirm]
"""

import argparse
import json
import os
import shutil
import subprocess
import sys
import time


def sh(cmd, cwd=None, env=None, timeout=3600):
    p = subprocess.run(cmd, shell=True, cwd=cwd, env=env, stdout=subprocess.PIPE, stderr=subprocess.STDOUT, text=True, timeout=timeout)
    return p.returncode, p.stdout


def main():
    ap = argparse.ArgumentParser()
    ap.add_argument("pid")
    ap.add_argument("seeddir")
    ap.add_argument("seedid")
    ap.add_argument("--tests", default="")
    ap.add_argument("--tier", default="quick")
    ap.add_argument("--no-confirm", action="store_true")
    ap.add_argument("--checks", default="", help="additional property checks to run, space separated")
    ap.add_argument("--wt", default="", help="scratch worktree (default /tmp/wt/<property>)")
    ns = ap.parse_args()
    wt = ns.wt or f"/tmp/wt/{ns.pid}"
    patch = os.path.join(ns.seeddir, "patch.diff")
    demo = os.path.join(ns.seeddir, "demo.py")
    meta = json.load(open(os.path.join(ns.seeddir, "meta.json")))
    env = dict(os.environ, PYTHONPATH=wt, PYTHONDONTWRITEBYTECODE="1")
    ran = {}
    if not ns.no_confirm:
        sh("git checkout -- . && git clean -fdq xonsh tests", cwd=wt)
        for f in ("parser_table.py", "completion_parser_table.py"):
            if not os.path.exists(f"{wt}/xonsh/{f}"):
                shutil.copy(f"/repo/xonsh/{f}", f"{wt}/xonsh/{f}")
        rc0, out0 = sh(f"/venv/bin/python {demo} {wt}", cwd=wt, env=env, timeout=300)
        rc, out = sh(f"git apply {patch}", cwd=wt)
        if rc != 0:
            print("PATCH DOES NOT APPLY", out)
            sys.exit(2)
        rc1, out1 = sh(f"/venv/bin/python {demo} {wt}", cwd=wt, env=env, timeout=300)
        ran["demo_unpatched_rc"] = rc0
        ran["demo_patched_rc"] = rc1
        ran["demo_patched_tail"] = out1[-400:]
        if ns.tests:
            rct, outt = sh(f"/venv/bin/python -m pytest -q -p no:cacheprovider --timeout=900 -x {ns.tests} 2>&1 | tail -5", cwd=wt, env=env)
            ran["tests"] = ns.tests
            ran["tests_tail"] = outt[-600:]
        sh("git checkout -- . && git clean -fdq xonsh tests", cwd=wt)
        print("confirm:", json.dumps(ran, indent=1))
        if rc0 != 0 or rc1 == 0:
            print("SEED NOT CONFIRMED (demo must pass unpatched and fail patched)")
            sys.exit(3)
    dst = f"/verif/seeded/{ns.seedid}"
    os.makedirs(dst, exist_ok=True)
    shutil.copy(patch, dst + "/patch.diff")
    shutil.copy(demo, dst + "/demo.py")
    # run the checks against the patched /repo
    rc, out = sh("git -C /repo status --porcelain --untracked-files=no")
    if out.strip():
        print("/repo is dirty, refusing", out)
        sys.exit(2)
    rc, out = sh(f"git -C /repo apply {patch}")
    if rc != 0:
        print("patch does not apply to /repo", out)
        sys.exit(2)
    results = {}
    # the runs below rewrite evidence/<id>.json with the patched tree's outcome: put the files back afterwards
    saved = {}
    for pid in [ns.pid] + ns.checks.split():
        ev = f"/verif/evidence/{pid}.json"
        if os.path.exists(ev):
            saved[ev] = open(ev).read()
    try:
        for pid in [ns.pid] + ns.checks.split():
            t0 = time.time()
            rc, out = sh(f"./check {pid} --tier {ns.tier}", cwd="/verif", timeout=7200)
            viol = [l for l in out.splitlines() if l.startswith("VIOLATION")]
            results[pid] = {"exit": rc, "violation_lines": len(viol), "wall_s": round(time.time() - t0, 1), "first": (out.splitlines()[out.splitlines().index(viol[0]) + 1][:400] if viol and out.splitlines().index(viol[0]) + 1 < len(out.splitlines()) else "")}
            if rc == 2:
                results[pid]["tail"] = out[-1500:]
    finally:
        sh("git -C /repo checkout -- .")
        for ev, text in saved.items():
            open(ev, "w").write(text)
    if ns.no_confirm and os.path.exists(dst + "/meta.json"):
        ran = json.load(open(dst + "/meta.json")).get("confirmed") or ran
    meta.update({"seed_id": ns.seedid, "confirmed": ran, "checks": results, "tier": ns.tier,
                 "detected": any(r["exit"] == 1 for r in results.values())})
    json.dump(meta, open(dst + "/meta.json", "w"), indent=1)
    print(json.dumps(results, indent=1))
    print("DETECTED" if meta["detected"] else "MISSED")


if __name__ == "__main__":
    main()
