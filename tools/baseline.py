#!/usr/bin/env python3
"""Development tool: run the repository's baseline test command (guard off) and compare with
/root/.vp/BASELINE.json: every stable_pass test must still pass."""
import json, os, subprocess, sys, xml.etree.ElementTree as ET

out = sys.argv[1] if len(sys.argv) > 1 else "/var/tmp/baseline.junit.xml"
env = dict(os.environ)
env.pop("XONSH_XONSH_VERIF", None)
cmd = f"cd /repo && /venv/bin/python -m pytest -ra -q -p no:cacheprovider --timeout=900 --continue-on-collection-errors --junitxml={out}"
p = subprocess.run(cmd, shell=True, env=env, stdout=subprocess.PIPE, stderr=subprocess.STDOUT, text=True)
print(p.stdout[-1500:])
base = json.load(open("/root/.vp/BASELINE.json"))
want = set(base["stable_pass"])
got = {}
for tc in ET.parse(out).getroot().iter("testcase"):
    name = f"{tc.get('classname')}::{tc.get('name')}"
    bad = any(ch.tag in ("failure", "error", "skipped") for ch in tc)
    got[name] = not bad
missing = sorted(n for n in want if not got.get(n, False))
print(f"stable_pass={len(want)} passing_now={sum(1 for n in want if got.get(n))} not_passing={len(missing)}")
for n in missing[:40]:
    print("  NOT PASSING:", n)
