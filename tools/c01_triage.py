#!/usr/bin/env python3
"""Development tool (never run by a check): run the complete C01 universe on the current tree and
rewrite known_findings_c01.json with the smallest explanations of every failure:
  prod    a production that fails alone in the plain layout, exec mode
  layout  a (production, layout, mode) combination that fails alone while the production is fine otherwise
  pair    a (parent, slot, child) nesting that fails although neither production is listed
  triple  a depth-3 derivation (with its layout) that fails and is explained by nothing above
Each entry keeps the failing source text as its witness."""
import json, os, random, sys
sys.path.insert(0, os.path.dirname(os.path.dirname(os.path.abspath(__file__))))
from harness import core, pool, tlc
from harness.checks import c01

scns = c01.universe("thorough", random.Random(0), core.streams("thorough", 0))
print(len(scns), "programs")
out = pool.run("pyparse", scns, hooks=False, timeout=6000)
tlc.cleanup_scratch()
fails = []
for t, s in zip(out, scns):
    o = t["steps"][0]["obs"]
    if o["cpy"] and not (o["xsh"] and o["same"] and o["compiles"]):
        fails.append((s["deriv"], t["src"], o))
print(len(fails), "failures")
prods, layouts, pairs, triples = {}, {}, {}, {}
for d, src, o in fails:
    if not d["slot"] and d["layout"] == "plain" and d["mode"] == "exec":
        prods[d["root"]] = (src, o)
for d, src, o in fails:
    if not d["slot"] and d["root"] not in prods:
        layouts[(d["root"], d["layout"], d["mode"])] = (src, o)
known = {"prods": set(prods), "layouts": set(layouts), "pairs": set(), "triples": set()}
for d, src, o in fails:
    if d["slot"] and not d["grand"] and not c01.explanations(d, known):
        pairs[(d["root"], d["slot"], d["child"])] = (src, o)
known["pairs"] = set(pairs)
for d, src, o in fails:
    if d["grand"] and not c01.explanations(d, known):
        triples[(d["root"], d["slot"], d["child"], d["grand"], d["layout"])] = (src, o)
known["triples"] = set(triples)
left = [d for d, src, o in fails if not c01.explanations(d, known)]
print("prods", len(prods), "layouts", len(layouts), "pairs", len(pairs), "triples", len(triples), "unexplained", len(left))


def what(o):
    k = o["kind"]
    return {"rejected": "rejected by xonsh's parser", "tree-differs": "xonsh builds a different tree", "compile-fails": "xonsh's tree does not compile", "crashed": "xonsh's parser raises an internal exception"}.get(k, k) + (f" ({o['detail']})" if o.get("detail") else "")


entries = []
for n, (src, o) in sorted(prods.items()):
    entries.append({"id": f"C01-prod-{n}", "property": "C01", "status": "open", "key": {"type": "prod", "prod": n}, "what": f"production {n}: {what(o)}", "witness": src})
for (n, lay, mode), (src, o) in sorted(layouts.items()):
    entries.append({"id": f"C01-layout-{n}-{lay}-{mode}", "property": "C01", "status": "open", "key": {"type": "layout", "prod": n, "layout": lay, "mode": mode}, "what": (f"statement of CPython's own syntax tests (Lib/test): {what(o)}" if n == "Corpus" else f"production {n} in layout {lay}, mode {mode}: {what(o)}"), "witness": src})
for (r, s, c), (src, o) in sorted(pairs.items()):
    entries.append({"id": f"C01-pair-{r}-{s}-{c}", "property": "C01", "status": "open", "key": {"type": "pair", "root": r, "slot": s, "child": c}, "what": f"{c} in slot {s} of {r}: {what(o)}", "witness": src})
for (r, s, c, g, lay), (src, o) in sorted(triples.items()):
    entries.append({"id": f"C01-triple-{r}-{s}-{c}-{g}-{lay}", "property": "C01", "status": "open", "key": {"type": "triple", "root": r, "slot": s, "child": c, "grand": g, "layout": lay}, "what": f"{r}[{s} <- {c}[{g}]] in layout {lay}: {what(o)}", "witness": src})
path = os.path.join(tlc.VERIF, "known_findings_c01.json")
json.dump({"comment": "C01: defects of the pinned parser against CPython 3.12, one entry per smallest failing derivation (written by tools/c01_triage.py at development time, never at check time). A derivation that fails and is explained by no entry is a VIOLATION.", "findings": entries}, open(path, "w"), indent=1)
print("written", len(entries))
