#!/bin/sh
# Development tool: run every registered check (tier $1, default quick) on the current tree, one after another.
cd "$(dirname "$0")/.."
TIER=${1:-quick}
shift
IDS=${*:-$(python3 -c "import json;print(' '.join(c['property_id'] for c in json.load(open('MANIFEST.json'))['checks']))")}
for id in $IDS; do
  s=$(date +%s)
  ./check $id --tier $TIER > /var/tmp/runall-$id.log 2>&1
  rc=$?
  echo "$id rc=$rc wall=$(( $(date +%s) - s ))s viol=$(grep -c '^VIOLATION' /var/tmp/runall-$id.log) known=$(grep -c '^KNOWN-FINDING' /var/tmp/runall-$id.log)"
done
