#!/usr/bin/env python3
"""Development tool: rewrite the table of seeded changes in DESIGN.md (between the SEEDTABLE markers)
from seeded/*/meta.json."""
import glob, json, os, re
root = os.path.dirname(os.path.dirname(os.path.abspath(__file__)))
rows = ["| seeded change | what it needs to manifest (short) | caught by | how |", "|---|---|---|---|"]
n = det = 0
for d in sorted(glob.glob(os.path.join(root, "seeded", "*"))):
    mp = os.path.join(d, "meta.json")
    if not os.path.exists(mp):
        continue
    m = json.load(open(mp))
    n += 1
    caught = [pid for pid, r in m.get("checks", {}).items() if r.get("exit") == 1]
    det += bool(caught)
    first = ""
    for pid in caught:
        first = (m["checks"][pid].get("first") or "").strip().replace("|", "/").replace("\n", " ")[:110]
        break
    needs = (m.get("needs") or m.get("summary") or "").replace("|", "/").replace("\n", " ")
    rows.append(f"| {os.path.basename(d)} | {needs[:150]} | {', '.join(caught) or '**missed**'} ({m.get('tier', 'quick')}) | {first} |")
rows.append("")
rows.append(f"{det} of {n} seeded changes are caught by the check of their property.")
p = os.path.join(root, "DESIGN.md")
s = open(p).read()
block = "<!-- SEEDTABLE-BEGIN -->\n" + "\n".join(rows) + "\n<!-- SEEDTABLE-END -->"
if "<!-- SEEDTABLE-BEGIN -->" in s:
    s = re.sub(r"<!-- SEEDTABLE-BEGIN -->.*?<!-- SEEDTABLE-END -->", lambda _: block, s, flags=re.S)
else:
    s = s.replace("SEEDTABLE", block, 1)
open(p, "w").write(s)
print(det, "of", n)
