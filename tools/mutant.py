#!/usr/bin/env python3
"""Development tool: apply a one-line source mutant to /repo, run a property's check, revert.
usage: mutant.py <Cnn> <file under /repo> <old text> <new text> [tier]"""
import subprocess, sys, time

pid, path, old, new = sys.argv[1:5]
tier = sys.argv[5] if len(sys.argv) > 5 else "quick"
full = "/repo/" + path
src = open(full).read()
if src.count(old) < 1:
    print("MUTANT DOES NOT APPLY:", old)
    sys.exit(2)
if subprocess.run("git -C /repo status --short", shell=True, capture_output=True, text=True).stdout.strip():
    print("/repo is not clean")
    sys.exit(2)
open(full, "w").write(src.replace(old, new, 1))
t0 = time.time()
try:
    p = subprocess.run(f"timeout 1500 ./check {pid} --tier {tier}", shell=True, cwd="/verif", capture_output=True, text=True)
finally:
    subprocess.run("git -C /repo checkout -- .", shell=True)
lines = p.stdout.splitlines()
viol = [l for l in lines if l.startswith("VIOLATION")]
print(f"MUTANT {pid} {path}: {old!r} -> {new!r}: exit={p.returncode} violations={len(viol)} wall={time.time() - t0:.0f}s")
for i, l in enumerate(lines):
    if l.startswith("VIOLATION"):
        print("   ", lines[i + 1][:300] if i + 1 < len(lines) else "")
        break
if p.returncode not in (0, 1):
    print(p.stdout[-1500:])
