"""Driver for C19: replays CodeCache histories on run_script_with_cache / run_code_with_cache in a
scratch $XONSH_DATA_DIR with explicitly set mtimes; observes which content ran and under which
(mode, binding context) meaning a code text ran."""

from __future__ import annotations

import contextlib
import io
import os
import shutil

from harness import xsession

BASE = 1_700_000_000
TEXTS = {"t1": ("vcmd", "x", "vcmd -x\n"), "t2": ("wcmd", "y", "wcmd -y\n")}


def setup(wd):
    XSH = xsession.load()
    calls = []

    def mk(name):
        def alias(args, stdin=None):
            calls.append((name, list(args)))
            return 0

        return alias

    XSH.aliases["vcmd"] = mk("vcmd")
    XSH.aliases["wcmd"] = mk("wcmd")
    return {"XSH": XSH, "wd": wd, "calls": calls, "n": 0}


def _content(v):
    return f"__verif_ran.append({v})\n"


def _cache_file(XSH, script):
    from xonsh.codecache import get_cache_filename

    return get_cache_filename(script, code=False)


def _code_cache_file(text, mode):
    from xonsh.codecache import code_cache_name, get_cache_filename

    try:
        name = code_cache_name(text, mode)
    except TypeError:  # a tree whose cache name does not depend on the mode
        name = code_cache_name(text)
    return get_cache_filename(name, code=True)


def _damage(path, kind):
    st = os.stat(path)
    data = open(path, "rb").read()
    lines = data.split(b"\n", 2)
    if kind == "xver":
        lines[0] = b"0.0.0-other"
        data = b"\n".join(lines)
    elif kind == "pyver":
        lines[1] = b"\x03\x00\x00"
        data = b"\n".join(lines)
    elif kind == "trunc":
        data = data[: len(lines[0]) + len(lines[1]) + 2 + max(1, len(lines[2]) // 2)]
    elif kind == "garbage":
        data = lines[0] + b"\n" + lines[1] + b"\n" + b"\xff\x00garbage-not-marshal\x01\x02"
    with open(path, "wb") as fh:
        fh.write(data)
    os.utime(path, (st.st_atime, st.st_mtime))


def _set_switches(XSH, sw):
    XSH.env["XONSH_CACHE_SCRIPTS"] = bool(sw["envScripts"])
    XSH.env["XONSH_CACHE_EVERYTHING"] = bool(sw["envAll"])
    XSH.execer.scriptcache = bool(sw["scriptcache"])
    XSH.execer.cacheall = bool(sw["cacheall"])


def _run_script(XSH, script):
    from xonsh.codecache import run_script_with_cache

    ran = []
    g = {"__verif_ran": ran}
    buf = io.StringIO()
    fatal = False
    with contextlib.redirect_stdout(buf), contextlib.redirect_stderr(buf):
        try:
            exc = run_script_with_cache(script, XSH.execer, glb=g, loc=None, mode="exec")
            if exc and exc[0] is not None:
                fatal = True
        except BaseException as e:  # noqa: BLE001
            fatal = True
            buf.write(f"{type(e).__name__}: {e}")
    return (ran[0] if len(ran) == 1 else (0 if not ran else -len(ran))), fatal, buf.getvalue()[:200]


def run(ctx, scn):
    from xonsh.codecache import run_code_with_cache

    XSH = ctx["XSH"]
    ctx["n"] += 1
    base = os.path.join(ctx["wd"], f"cc{ctx['n']}")
    shutil.rmtree(base, ignore_errors=True)
    os.makedirs(base)
    XSH.env["XONSH_DATA_DIR"] = os.path.join(base, "data")
    os.makedirs(XSH.env["XONSH_DATA_DIR"])
    # the script is run through a symlink that points at file F1 or at a second file F2
    f1 = os.path.join(base, "releases", "v1", "script.xsh")
    f2 = os.path.join(base, "releases", "v2", "script.xsh")
    os.makedirs(os.path.dirname(f1))
    os.makedirs(os.path.dirname(f2))
    script = os.path.join(base, "script.xsh")
    if scn.get("truncsweep"):
        try:
            return {"steps": [], "truncsweep": _truncsweep(ctx, script)}
        finally:
            shutil.rmtree(base, ignore_errors=True)
    content, clock = 1, 0
    with open(f1, "w") as fh:
        fh.write(_content(content))
    os.utime(f1, (BASE, BASE))
    with open(f2, "w") as fh:
        fh.write(_content(3))
    os.utime(f2, (BASE, BASE))
    os.symlink(f1, script)
    _set_switches(XSH, scn["sw"])
    steps = []
    try:
        for st in scn["steps"]:
            cmd = st["cmd"]
            obs = {}
            if cmd == "tick":
                clock += 1
            elif cmd == "editat":
                content = 3 - content
                m = BASE + int(st["a"]) * 100
                # a new version installed with its own (possibly earlier) timestamp: mv / cp -p
                tmp = f1 + ".new"
                with open(tmp, "w") as fh:
                    fh.write(_content(content))
                os.utime(tmp, (m, m))
                os.replace(tmp, f1)
            elif cmd == "touch":
                m = BASE + clock * 100
                os.utime(f1, (m, m))
            elif cmd == "relink":
                tgt = f2 if os.readlink(script) == f1 else f1
                os.remove(script)
                os.symlink(tgt, script)
            elif cmd == "damage":
                if not os.path.exists(_cache_file(XSH, f1)):
                    break  # the planned step is not possible here (no entry was written)
                _damage(_cache_file(XSH, f1), st["a"])
            elif cmd == "switch":
                _set_switches(XSH, st["sw"])
            elif cmd == "runscript":
                cf = _cache_file(XSH, os.path.realpath(script))
                before = os.stat(cf).st_mtime_ns if os.path.exists(cf) else None
                before_data = open(cf, "rb").read() if before is not None else None
                ran, fatal, msg = _run_script(XSH, script)
                if os.path.exists(cf):
                    now_data = open(cf, "rb").read()
                    if before is None or now_data != before_data:
                        m = BASE + clock * 100  # the entry was (re)written now
                        os.utime(cf, (m, m))
                    elif os.stat(cf).st_mtime_ns != before:
                        # the code touched the entry without rewriting it: it did so "now"
                        m = BASE + clock * 100
                        os.utime(cf, (m, m))
                obs = {"ran": ran, "fatal": fatal, "msg": msg}
            elif cmd == "runcode":
                name, arg, text = TEXTS[st["a"]]
                g = {}
                if st["c"]:
                    g[name] = 10
                    g[arg] = 3
                ctx["calls"].clear()
                buf = io.StringIO()
                fatal = False
                with contextlib.redirect_stdout(buf), contextlib.redirect_stderr(buf):
                    try:
                        exc = run_code_with_cache(text, "<string>", XSH.execer, glb=g, loc=None, mode=st["b"])
                        if exc and exc[0] is not None:
                            fatal = True
                            buf.write(repr(exc[1]))
                    except BaseException as e:  # noqa: BLE001
                        fatal = True
                        buf.write(f"{type(e).__name__}: {e}")
                py = not ctx["calls"]
                obs = {"ctx": py, "mode": ("single" if buf.getvalue().strip() == "7" else "exec") if py else "?", "fatal": fatal, "msg": buf.getvalue()[:200]}
            elif cmd == "damagecode":
                if not os.path.exists(_code_cache_file(TEXTS[st["a"]][2], st["c"])):
                    break
                _damage(_code_cache_file(TEXTS[st["a"]][2], st["c"]), st["b"])
            else:
                raise ValueError(cmd)
            steps.append({"cmd": cmd, "a": st.get("a", 0), "b": st.get("b", 0), "c": st.get("c", 0), "sw": st.get("sw", scn["sw"]), "obs": obs})
    finally:
        shutil.rmtree(base, ignore_errors=True)
    return {"sw": scn["sw"], "steps": steps}


def _truncsweep(ctx, script):
    """Every truncation length of a real cache file (script store and code store): the damaged
    entry must be ignored and rebuilt - never executed, never fatal."""
    XSH = ctx["XSH"]
    _set_switches(XSH, {"envScripts": True, "envAll": True, "scriptcache": True, "cacheall": True})
    out = {"lengths": 0, "failures": []}
    if os.path.islink(script):
        os.remove(script)
    with open(script, "w") as fh:
        fh.write(_content(1) + "def f(a, b=2):\n    return [a, b, 'text', 1.5]\n")
    os.utime(script, (BASE, BASE))
    ran, fatal, _ = _run_script(XSH, script)
    cf = _cache_file(XSH, script)
    full = open(cf, "rb").read()
    for n in range(len(full)):
        with open(cf, "wb") as fh:
            fh.write(full[:n])
        os.utime(cf, (BASE + 500, BASE + 500))
        ran, fatal, msg = _run_script(XSH, script)
        out["lengths"] += 1
        if ran != 1 or fatal:
            out["failures"].append({"store": "script", "length": n, "of": len(full), "ran": ran, "fatal": fatal, "msg": msg})
    # byte substitutions in the marshalled section: such an entry may legitimately load (there is no
    # checksum), but reading it must never raise out of run_script_with_cache
    hdr = len(full) - len(full.split(b"\n", 2)[2])
    out["substitutions"] = 0
    for off in range(hdr, len(full)):
        for val in (0x80, 0xFF):
            if full[off] == val:
                continue
            data = bytearray(full)
            data[off] = val
            with open(cf, "wb") as fh:
                fh.write(bytes(data))
            os.utime(cf, (BASE + 500, BASE + 500))
            escaped = None
            # only the reader is exercised (marshal.load inside script_cache_check): executing
            # arbitrarily corrupted bytecode could loop or crash the harness
            from xonsh.codecache import script_cache_check

            try:
                script_cache_check(script, cf)
            except BaseException as e:  # noqa: BLE001
                escaped = f"{type(e).__name__}: {e}"
            out["substitutions"] += 1
            if escaped:
                out["failures"].append({"store": "script", "byte": off, "value": val, "escaped": escaped})
    return out
