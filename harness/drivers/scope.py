"""Driver for C02: renders a statement sequence to source, runs the real three-phase parse
(Execer.parse with the session's names as context) and reads off, for every expression statement,
whether the transformed tree calls a subprocess helper on that line (command) or not (Python)."""

from __future__ import annotations

import ast

from harness import xsession


def setup(wd):
    XSH = xsession.load()
    return {"XSH": XSH}


def render(steps):
    lines, expr_lines = [], {}
    depth = 0
    open_blocks = []  # number of body statements per open block

    def emit(text):
        for ln in text.split("\n"):
            lines.append("    " * depth + ln)
        if open_blocks:
            open_blocks[-1] += 1

    for i, st in enumerate(steps):
        c = st["cmd"]
        x, y, form = st.get("x", ""), st.get("y", ""), st.get("form", "")
        if c == "bind":
            emit({
                "assign": f"{x} = 1", "aug": f"{x} += 1", "ann": f"{x}: int = 1", "import": f"import {x}", "importdotted": f"import {x}.sub",
                "importfrom": f"from m import {x}", "for": f"for {x} in range(1):\n    pass", "with": f"with open('f') as {x}:\n    pass",
                "except": f"try:\n    pass\nexcept Exception as {x}:\n    pass", "walrus": f"({x} := 1)", "walrusif": f"if ({x} := 1):\n    pass",
            }[form])
        elif c == "def":
            emit(f"def {x}({y}):")
            depth += 1
            open_blocks.append(0)
        elif c == "class":
            emit(f"class {x}:")
            depth += 1
            open_blocks.append(0)
        elif c == "end":
            if open_blocks[-1] == 0:
                emit("pass")
            open_blocks.pop()
            depth -= 1
        elif c == "global":
            emit(f"global {x}\n{x} = 1")
        elif c == "del":
            emit(f"del {x}")
        elif c == "expr":
            text = {"sub": f"{x} -{y}", "pipe": f"{x} | {y}", "lt": f"{x} < {y}", "and": f"{x} and {y}", "bare": f"{x}"}[form]
            emit(text)
            expr_lines[i] = len(lines)
    while open_blocks:
        if open_blocks[-1] == 0:
            lines.append("    " * depth + "pass")
        open_blocks.pop()
        depth -= 1
    return "\n".join(lines) + "\n", expr_lines


def run(ctx, scn):
    XSH = ctx["XSH"]
    if scn.get("noexec"):
        return noexec(XSH, scn)
    steps = scn["steps"]
    src, expr_lines = render(steps)
    out = []
    try:
        # the decision must depend on this input and this session only: compile something else first,
        # in a namespace that binds every name, on the same execer
        ex = XSH.execer
        warm = {n: 1 for n in ("a", "b")}
        ex.compile("a\nb\n", glbs=warm, locs=warm, mode="exec", filename="<verif-warm>")
        # go through Execer.compile (which derives the context from the namespaces) and capture the tree
        captured = {}
        real_parse = ex.parse

        def spy(*a, **k):
            t = real_parse(*a, **k)
            captured.setdefault("tree", t)
            return t

        ns = {n: 1 for n in scn["session"]}
        ex.parse = spy
        try:
            ex.compile(src, glbs=ns, locs=ns, mode="exec", filename="<verif-scope>")
        except SyntaxError:
            # CPython's own compile stage rejects some generated programs (e.g. `global` after use);
            # the Python-vs-command decisions were already taken by the parse that succeeded
            if "tree" not in captured:
                raise
        finally:
            del ex.parse
        tree = captured["tree"]
        cmd_lines = set()
        for node in ast.walk(tree):
            if isinstance(node, ast.stmt) and hasattr(node, "lineno"):
                # only the statement itself, not nested bodies
                if isinstance(node, (ast.Expr, ast.Assign)) and "subproc_" in ast.dump(node):
                    cmd_lines.add(node.lineno)
        err = ""
    except SyntaxError as e:
        cmd_lines, err = set(), f"SyntaxError: {e}"[:150]
    except Exception as e:  # noqa: BLE001
        cmd_lines, err = set(), f"{type(e).__name__}: {e}"[:150]
    for i, st in enumerate(steps):
        obs = {}
        if st["cmd"] == "expr":
            obs = {"decision": "error" if err else ("command" if expr_lines[i] in cmd_lines else "python"), "line": expr_lines[i]}
        out.append({"cmd": st["cmd"], "form": st.get("form", ""), "x": st.get("x", ""), "y": st.get("y", ""), "obs": obs})
    return {"session": scn["session"], "src": src, "err": err, "steps": out}


def noexec(XSH, scn):
    """The whole input is decided (parsed and compiled) before anything runs: a syntax error after k
    side-effecting statements must leave no side effect."""
    log = []
    g = {"log": log}
    body = "".join(f"log.append({i})\n" for i in range(scn["k"])) + scn["middle"] + scn["bad"] + "\n"
    err = ""
    try:
        XSH.execer.exec(body, glbs=g, locs=g, filename="<verif-noexec>")
    except SyntaxError:
        err = "SyntaxError"
    except Exception as e:  # noqa: BLE001
        err = type(e).__name__
    return {"steps": [], "noexec": {"src": body, "ran": len(log), "err": err}}
