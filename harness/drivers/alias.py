"""Driver for C15: builds real alias tables (every body kind) and records what
Aliases.get and SubprocSpec.build resolve, with a generous wall-clock guard for termination."""

from __future__ import annotations

import os
import signal
import stat
import time

from harness import xsession


def setup(wd):
    XSH = xsession.load()
    # make the non-alias command words resolvable binaries so SubprocSpec.build is happy
    bindir = os.path.join(wd, "bin")
    os.makedirs(bindir, exist_ok=True)
    for n in ("x", "a", "b", "c"):
        p = os.path.join(bindir, n)
        if not os.path.exists(p):
            import shutil

            shutil.copy("/bin/true", p)
        os.chmod(p, 0o755)
    XSH.env["PATH"] = [bindir]
    XSH.env["VERIFVAR"] = "expanded value"
    XSH.env["EXPAND_ENV_VARS"] = True
    return {"XSH": XSH, "bindir": bindir}


class _Timeout(Exception):
    pass


def _alarm(signum, frame):
    raise _Timeout()


def _mk_fn(name):
    def f(args, stdin=None):
        return 0

    f.__name__ = "fn_" + name
    return f


def _mk_rc(name, toks):
    from xonsh.aliases import Aliases

    @Aliases.return_command
    def f(args):
        return list(toks) + list(args)

    return f


def run(ctx, scn):
    from xonsh.aliases import Aliases
    from xonsh.procs.specs import DecoratorAlias, SpecAttrDecoratorAlias, SubprocSpec

    XSH = ctx["XSH"]
    home = os.path.expanduser("~")
    aliases = Aliases()
    saved = XSH.commands_cache.aliases
    XSH.commands_cache.aliases = aliases
    names = {}
    for d in scn["decs"]:
        aliases[d] = SpecAttrDecoratorAlias({"verif_mark_" + d.strip("@"): True}, "verif decorator", d)
    steps = []
    signal.signal(signal.SIGALRM, _alarm)
    try:
        for st in scn["steps"]:
            cmd = st["cmd"]
            obs = {}
            if cmd == "define":
                b = st["body"]
                n = st["name"]
                if b["kind"] == "list":
                    if st.get("form") == "str" and all(t.isalnum() or t.startswith(("-", "@")) for t in b["toks"]):
                        aliases[n] = " ".join(b["toks"])
                    else:
                        aliases[n] = list(b["toks"])
                elif b["kind"] == "fn":
                    aliases[n] = _mk_fn(n)
                elif b["kind"] == "rc":
                    aliases[n] = _mk_rc(n, b["toks"])
                else:
                    raise ValueError(b)
                names[id(aliases._raw[n])] = n
            elif cmd == "remove":
                del aliases[st["name"]]
            elif cmd == "query":
                line = list(st["line"])

                def norm(lst):
                    out = []
                    for x in lst:
                        if callable(x):
                            out.append("<fn:%s>" % names.get(id(x), "?"))
                        else:
                            out.append(str(x).replace(home, "<HOME>").replace("expanded value", "<VAR>"))
                    return out

                t0 = time.time()
                signal.alarm(20)
                try:
                    decs = []
                    r = aliases.get(list(line), None, decorators=decs)
                    obs = {"found": r is not None, "out": norm(r) if r is not None else [], "decs": [getattr(d, "name", "?") for d in decs], "err": ""}
                except _Timeout:
                    obs = {"found": False, "out": ["<timeout>"], "decs": [], "err": "timeout"}
                except RecursionError:
                    obs = {"found": False, "out": ["<recursion>"], "decs": [], "err": "RecursionError"}
                finally:
                    signal.alarm(0)
                # the same resolution as the subprocess machinery sees it
                signal.alarm(20)
                try:
                    spec = SubprocSpec.build(list(line))
                    if callable(spec.alias):
                        sout = ["<fn:%s>" % names.get(id(spec.alias), "?")] + norm(spec.cmd)
                    elif spec.alias is None:
                        sout = ["<noalias>"] + norm(spec.cmd)
                    else:
                        sout = norm(spec.cmd)
                    sdecs = [getattr(d, "name", "?") for d in (spec.decorators or [])] if hasattr(spec, "decorators") else None
                    obs["spec_out"] = sout
                    obs["spec_decs"] = sdecs
                except _Timeout:
                    obs["spec_out"] = ["<timeout>"]
                except Exception as e:  # noqa: BLE001
                    obs["spec_out"] = ["<exc:%s>" % type(e).__name__]
                    obs["spec_err"] = str(e)[:200]
                finally:
                    signal.alarm(0)
                obs["wall_ms"] = round((time.time() - t0) * 1000, 2)
            steps.append({"cmd": cmd, "name": st.get("name", ""), "body": st.get("body", {"kind": "none", "toks": []}), "line": st.get("line", []), "obs": obs})
    finally:
        XSH.commands_cache.aliases = saved
        signal.alarm(0)
    return {"names": scn["names"], "decs": scn["decs"], "steps": steps}
