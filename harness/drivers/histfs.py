"""Driver for C13: runs every history-rewriting operation in a forked child under a file-system
interposer that (a) records the operations, (b) kills the process (os._exit) at the k-th operation -
optionally in the middle of a write - or (c) makes the k-th call raise OSError.  The parent then
classifies every history file (complete previous version / complete new version / torn / absent)."""

from __future__ import annotations

import errno
import json
import os
import shutil
import sqlite3
import sys
import time

from harness import xsession

OPS = ["flush_exit", "flush_bg", "delete", "erasedups", "gc_unlock", "sq_append", "sq_erasedups", "sq_delete"]
T0 = 1_600_000_000.0


def setup(wd):
    XSH = xsession.load()
    return {"XSH": XSH, "wd": wd, "n": 0}


# ------------------------------------------------------------------------------------------------
def _cmd(inp, i):
    return {"inp": inp, "rtn": 0, "ts": [T0 + i, T0 + i + 0.5], "out": ""}


def _prepare(XSH, base):
    """A deterministic data dir: f1 = the running session's file, f2 = a closed session, f3 = a file
    locked before the last reboot; and a SQLite database."""
    import xonsh.lib.lazyjson as xlj

    shutil.rmtree(base, ignore_errors=True)
    hdir = os.path.join(base, "history_json")
    os.makedirs(hdir)
    XSH.env["XONSH_DATA_DIR"] = base
    XSH.env["XONSH_HISTORY_FILE"] = None
    XSH.env["HISTCONTROL"] = set()
    files = {}

    def write(name, cmds, locked, ts):
        p = os.path.join(hdir, f"xonsh-{name}.json")
        with open(p, "w", newline="\n", encoding="utf-8") as fh:
            xlj.ljdump({"cmds": cmds, "sessionid": name, "ts": ts, "locked": locked}, fh, sort_keys=True)
        return p

    files["f1"] = write("aaa-live", [_cmd("echo one", 1), _cmd("secret token", 2), _cmd("echo dup", 3)], True, [time.time() - 5, None])
    files["f2"] = write("bbb-closed", [_cmd("echo dup", 10), _cmd("ls", 11), _cmd("secret other", 12), _cmd("ls", 13)], False, [T0, T0 + 20])
    files["f3"] = write("ccc-stale", [_cmd("old command", 20)], True, [T0 - 1000, T0 - 900])
    db = os.path.join(base, "hist.sqlite")
    files["db"] = db
    return files


def _open_hist(XSH, files):
    from xonsh.history.json import JsonHistory

    h = JsonHistory(filename=files["f1"], gc=False, sessionid="aaa-live", save_cwd=False)
    XSH.history = h
    return h


def _open_sq(XSH, files, fill=True):
    from xonsh.history.sqlite import SqliteHistory

    h = SqliteHistory(gc=False, filename=files["db"], sessionid="sq-live", save_cwd=False)
    if fill:
        for i, inp in enumerate(["echo one", "ls", "secret token", "ls", "echo dup", "secret other", "echo dup"]):
            h.append({"inp": inp, "rtn": 0, "ts": [T0 + i, T0 + i + 0.5]})
    return h


def _snapshot(files):
    import xonsh.lib.lazyjson as xlj

    snap = {}
    for fid, p in files.items():
        if fid == "db":
            if not os.path.exists(p):
                snap[fid] = None
                continue
            try:
                con = sqlite3.connect(p)
                snap[fid] = [tuple(r) for r in con.execute("SELECT inp, frequency FROM xonsh_history ORDER BY tsb, rowid")]
                con.close()
            except Exception as e:  # noqa: BLE001
                snap[fid] = f"ERR {type(e).__name__}"
            continue
        if not os.path.exists(p):
            snap[fid] = None
            continue
        try:
            lj = xlj.LazyJSON(p, reopen=False)
            data = lj.load()
            lj.close()
            snap[fid] = [[c["inp"] for c in data["cmds"]], bool(data.get("locked", False))]
        except Exception as e:  # noqa: BLE001
            snap[fid] = f"ERR {type(e).__name__}"
    return snap


# ------------------------------------------------------------------------------------------------
class Interposer:
    def __init__(self, files, logpath, mode, k, partial):
        self.files = {os.path.realpath(p): fid for fid, p in files.items()}
        self.log = open(logpath, "a")
        self.mode, self.k, self.partial = mode, k, partial
        self.n = 0
        self.tmps = {}
        self.sql_dml = 0
        self.sql_autocommit = False

    def emit(self, cmd, f="", t=""):
        self.log.write(json.dumps({"cmd": cmd, "f": f, "t": t}) + "\n")
        self.log.flush()

    def point(self, partial_action=None):
        """One file-system operation is about to happen."""
        self.n += 1
        if self.n == self.k:
            if self.mode == "crash":
                if self.partial and partial_action is not None:
                    partial_action()
                self.log.flush()
                os._exit(77)
            if self.mode == "fail":
                raise OSError(errno.ENOSPC, "No space left on device (injected)")

    def fid(self, path):
        return self.files.get(os.path.realpath(path))

    def tmp_id(self, path, new=False):
        path = os.path.realpath(path)
        if new:
            used = set(self.tmps.values())
            tid = next(t for t in ("t1", "t2", "t3", "t4") if t not in used)
            self.tmps[path] = tid
        return self.tmps.get(path)

    def install(self):
        import tempfile

        import xonsh.history.json as xhj

        ip = self
        real_mkstemp, real_fdopen, real_replace = tempfile.mkstemp, os.fdopen, os.replace
        real_unlink, real_remove, real_open = os.unlink, os.remove, open
        fd_names = {}

        def mkstemp(*a, **kw):
            ip.point()
            fd, name = real_mkstemp(*a, **kw)
            fd_names[fd] = name
            ip.emit("mkstemp", t=ip.tmp_id(name, new=True))
            return fd, name

        class Proxy:
            def __init__(self, fh, kind, ident):
                self._fh, self._kind, self._id = fh, kind, ident
                self._closed = False

            def write(self, data):
                def partial():
                    self._fh.write(data[: max(1, len(data) // 2)])
                    self._fh.flush()

                try:
                    ip.point(partial)
                except OSError:
                    if self._kind == "tmp":
                        ip.emit("failtmp", t=self._id)
                    else:
                        ip.emit("failinplace", f=self._id)
                    raise
                r = self._fh.write(data)
                ip.emit("write" if self._kind == "tmp" else "writeinplace", f=self._id if self._kind != "tmp" else "", t=self._id if self._kind == "tmp" else "")
                return r

            def close(self):
                if self._closed:
                    return
                self._closed = True
                try:
                    ip.point(lambda: None)
                except OSError:
                    # a failing close: the buffered tail never reaches the disk
                    try:
                        os.close(self._fh.fileno())
                    except OSError:
                        pass
                    if self._kind == "tmp":
                        ip.emit("failtmp", t=self._id)
                    else:
                        ip.emit("failinplace", f=self._id)
                    raise
                self._fh.close()
                ip.emit("close" if self._kind == "tmp" else "closeinplace", f=self._id if self._kind != "tmp" else "", t=self._id if self._kind == "tmp" else "")

            def __enter__(self):
                return self

            def __exit__(self, *exc):
                self.close()
                return False

            def __getattr__(self, name):
                return getattr(self._fh, name)

        def fdopen(fd, mode="r", *a, **kw):
            fh = real_fdopen(fd, mode, *a, **kw)
            name = fd_names.pop(fd, None)
            if name is not None and "w" in mode:
                return Proxy(fh, "tmp", ip.tmp_id(name))
            return fh

        def open_(path, mode="r", *a, **kw):
            fid = ip.fid(path) if isinstance(path, (str, os.PathLike)) else None
            if fid is not None and ("w" in mode or "a" in mode):
                ip.point()
                fh = real_open(path, mode, *a, **kw)
                ip.emit("opentrunc", f=fid)
                return Proxy(fh, "file", fid)
            return real_open(path, mode, *a, **kw)

        def replace(src, dst):
            ip.point()
            real_replace(src, dst)
            tid, fid = ip.tmp_id(src), ip.fid(dst)
            ip.tmps.pop(os.path.realpath(src), None)
            ip.emit("replace", f=fid or "?", t=tid or "?")

        def unlink(path, *a, **kw):
            tid, fid = ip.tmp_id(path), ip.fid(path)
            if tid is None and fid is None:
                return real_unlink(path, *a, **kw)
            ip.point()
            real_unlink(path, *a, **kw)
            if tid is not None:
                ip.tmps.pop(os.path.realpath(path), None)
                ip.emit("unlink", t=tid)
            else:
                ip.emit("remove", f=fid)

        tempfile.mkstemp = mkstemp
        os.fdopen = fdopen
        os.replace = replace
        os.unlink = unlink
        os.remove = unlink
        xhj.open = open_

        # SQLite: count data-modifying statements and commits
        import xonsh.history.sqlite as xhs

        real_connect = sqlite3.connect

        class Cur:
            def __init__(self, cur, conn):
                self._c, self._conn = cur, conn

            def execute(self, sql, *a):
                dml = sql.lstrip().split(None, 1)[0].upper() in ("INSERT", "DELETE", "UPDATE", "REPLACE")
                if dml:
                    ip.point()
                r = self._c.execute(sql, *a)
                if dml:
                    ip.sql_dml += 1
                    if not self._conn._c.in_transaction:
                        ip.sql_autocommit = True
                    ip.emit("sql", f="db")
                return r

            def __iter__(self):
                return iter(self._c)

            def __getattr__(self, name):
                return getattr(self._c, name)

        class Conn:
            def __init__(self, conn):
                self._c = conn

            def cursor(self):
                return Cur(self._c.cursor(), self)

            def commit(self):
                if self._c.in_transaction:
                    ip.point()
                    self._c.commit()
                    ip.emit("commit", f="db")
                else:
                    self._c.commit()

            def __enter__(self):
                return self

            def __exit__(self, et, ev, tb):
                if et is None:
                    self.commit()
                else:
                    self._c.rollback()
                return False

            def execute(self, sql, *a):
                return self.cursor().execute(sql, *a)

            def __getattr__(self, name):
                return getattr(self._c, name)

        class Shim:
            def __getattr__(self, name):
                return getattr(sqlite3, name)

            @staticmethod
            def connect(*a, **kw):
                return Conn(real_connect(*a, **kw))

        xhs.sqlite3 = Shim()


def _perform(XSH, op, files, h, sq):
    import xonsh.history.json as xhj

    if op in ("flush_exit", "flush_bg"):
        h.append({"inp": "new command 1", "rtn": 0, "ts": [T0 + 50, T0 + 50.5]})
        h.append({"inp": "new command 2", "rtn": 0, "ts": [T0 + 51, T0 + 51.5]})
        if op == "flush_exit":
            h.flush(at_exit=True)
        else:
            h.flush()
            t0 = time.time()
            while h._queue and time.time() - t0 < 5:
                time.sleep(0.002)
    elif op == "delete":
        h.delete("secret.*")
    elif op == "erasedups":
        h.erasedups()
    elif op == "gc_unlock":
        gc = xhj.JsonHistoryGC(wait_for_shell=False, size=(100, "files"))
        gc.join(20)
    elif op == "sq_append":
        sq.append({"inp": "new command", "rtn": 0, "ts": [T0 + 60, T0 + 60.5]})
    elif op == "sq_erasedups":
        sq.erasedups()
    elif op == "sq_delete":
        sq.delete("secret.*")
    else:
        raise ValueError(op)


def _child(XSH, op, base, logpath, mode, k, partial):
    """Runs in a forked child: prepare, interpose, perform; exit status 0 = completed."""
    try:
        devnull = os.open(os.devnull, os.O_WRONLY)
        os.dup2(devnull, 1)
        os.dup2(devnull, 2)
        files = _prepare(XSH, base)
        h = _open_hist(XSH, files) if not op.startswith("sq_") else None
        sq = _open_sq(XSH, files) if op.startswith("sq_") else None
        ip = Interposer(files, logpath, mode, k, partial)
        ip.install()
        try:
            _perform(XSH, op, files, h, sq)
        except OSError:
            pass  # an injected failure may surface to the caller: that is a report, not damage
        except Exception:  # noqa: BLE001
            pass
        if op.startswith("sq_") and ip.sql_autocommit and ip.sql_dml:
            ip.emit("sqldone", f="db")
        ip.log.flush()
        with open(logpath + ".count", "w") as fh:
            fh.write(str(ip.n))
    finally:
        os._exit(0)


def _fork_run(XSH, op, base, logpath, mode, k, partial=False):
    if os.path.exists(logpath):
        os.remove(logpath)
    pid = os.fork()
    if pid == 0:
        _child(XSH, op, base, logpath, mode, k, partial)
    t0 = time.time()
    while True:
        r, status = os.waitpid(pid, os.WNOHANG)
        if r:
            break
        if time.time() - t0 > 60:
            os.kill(pid, 9)
            os.waitpid(pid, 0)
            status = -1
            break
        time.sleep(0.002)
    events = []
    if os.path.exists(logpath):
        events = [json.loads(line) for line in open(logpath) if line.strip()]
    return status, events


def _classify(snap, old, new):
    found = {}
    for fid in old:
        cur = snap.get(fid)
        if cur == old[fid] and cur == new[fid]:
            found[fid] = "untouched"
        elif cur == old[fid]:
            found[fid] = "old"
        elif cur == new[fid]:
            found[fid] = "new"
        elif cur is None:
            found[fid] = "absent"
        else:
            found[fid] = "torn"
    return found


def run(ctx, scn):
    XSH = ctx["XSH"]
    ctx["n"] += 1
    op = scn["op"]
    base = os.path.join(ctx["wd"], f"hf{ctx['n']}")
    logpath = os.path.join(ctx["wd"], f"hf{ctx['n']}.log")
    # the reference: before / after an undisturbed run
    files = {"f1": os.path.join(base, "history_json", "xonsh-aaa-live.json"), "f2": os.path.join(base, "history_json", "xonsh-bbb-closed.json"),
             "f3": os.path.join(base, "history_json", "xonsh-ccc-stale.json"), "db": os.path.join(base, "hist.sqlite")}
    status, events = _fork_run(XSH, op, base, logpath, "none", 0)
    new = _snapshot(files)
    nops = int(open(logpath + ".count").read()) if os.path.exists(logpath + ".count") else 0
    # "old": the state right after preparation = run with a kill at the very first operation
    status, _ = _fork_run(XSH, op, base, logpath, "crash", 1)
    old = _snapshot(files)
    traces = [{"op": op, "mode": "clean", "k": 0, "steps": events + [{"cmd": "observe", "f": "", "t": "", "found": _classify(new, old, new)}]}]
    for mode in scn["modes"]:
        for k in range(1, nops + 1):
            for partial in ((False, True) if mode == "crash" else (False,)):
                status, ev = _fork_run(XSH, op, base, logpath, mode, k, partial)
                snap = _snapshot(files)
                steps = list(ev)
                if mode == "crash":
                    steps.append({"cmd": "crash", "f": "", "t": ""})
                steps.append({"cmd": "observe", "f": "", "t": "", "found": _classify(snap, old, new)})
                traces.append({"op": op, "mode": mode, "k": k, "partial": partial, "steps": steps,
                               "snap": {f: ("missing" if v is None else v if isinstance(v, str) else "ok") for f, v in snap.items()}})
    shutil.rmtree(base, ignore_errors=True)
    for p in (logpath, logpath + ".count"):
        if os.path.exists(p):
            os.remove(p)
    return {"steps": [], "op": op, "nops": nops, "traces": traces}
