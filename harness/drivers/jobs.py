"""Driver for C20: executes Jobs scenarios on the real xonsh.procs.jobs module with stub
process/pipeline objects whose poll() is scripted (no signals are ever sent: pids=[None],
pgrp=None, exactly like alias stages).  Alias-thread commands run on a real second thread."""

from __future__ import annotations

import io
import os
import re
import signal
import sys
import threading
import time

from harness import xsession


class StubProc:
    def __init__(self):
        self.returncode = None
        self.pid = None

    def poll(self):
        return self.returncode


class StubSpec:
    captured = "hiddenobject"


class StubPipeline:
    def __init__(self, log):
        self.spec = StubSpec()
        self.log = log

    def resume(self, job, tee_output=True):
        self.log.append(("resume", id(job), tee_output))


_released = set()  # tokens of last-stage aliases allowed to finish
_release_all = threading.Event()


class _BrokenStream:
    """stdout of a shell whose terminal went away."""

    def write(self, s):
        raise OSError(5, "Input/output error")

    def flush(self):
        pass


def _verif_wait(args, stdin=None, stdout=None, stderr=None):
    # a last-stage alias that stays alive until the driver lets the job end
    token = args[0] if args else None
    t0 = time.time()
    while token not in _released and not _release_all.is_set() and time.time() - t0 < 120:
        time.sleep(0.01)
    return 0


def _verif_quick(args, stdin=None, stdout=None, stderr=None):
    return 0


def setup(wd):
    XSH = xsession.load()
    XSH.aliases["verif_wait"] = _verif_wait
    XSH.aliases["verif_quick"] = _verif_quick
    return {"XSH": XSH}


def _in_thread(fn):
    box = {}

    def target():
        try:
            box["r"] = fn()
        except BaseException as e:  # noqa: BLE001
            box["e"] = e

    t = threading.Thread(target=target, name="verif-alias-thread")
    t.start()
    t.join(30)
    if t.is_alive():
        raise RuntimeError("alias thread hung")
    if "e" in box:
        raise box["e"]
    return box["r"]


def _call(fn, args, **kw):
    """Call a command function the way the alias machinery does; normalise its result to
    (out, err, rtn)."""
    try:
        r = fn(list(args), **kw)
    except SystemExit as e:  # argparse usage error inside ArgParserAlias
        return "", "usage error", int(e.code or 0) or 2
    except Exception as e:  # noqa: BLE001 - an internal exception escaping a job command is an observation
        return "", f"EXC:{type(e).__name__}: {e}", 70
    out, err, rtn = "", "", 0
    if r is None:
        pass
    elif isinstance(r, str):
        out = r
    elif isinstance(r, int):
        rtn = r
    elif isinstance(r, tuple):
        if len(r) >= 1 and r[0]:
            out = r[0]
        if len(r) >= 2 and r[1]:
            err = r[1]
        if len(r) >= 3 and r[2]:
            rtn = r[2]
    return out, err, rtn


def _arg_strs(a):
    k = a["kind"]
    if k == "none":
        return []
    if k == "plus":
        return ["+"]
    if k == "minus":
        return ["-"]
    if k == "junk":
        return ["x1"]
    if k == "two":
        return ["1", "2"]
    return [str(a["n"])]


def run(ctx, scn):
    import xonsh.procs.jobs as xj

    XSH = ctx["XSH"]
    maxjobs = scn["maxjobs"]
    XSH.all_jobs.clear()
    xj._tasks_main.clear()
    # make sure the main thread's thread-local view is the main table
    xj._jobs_thread_local.tasks = xj._tasks_main
    xj._jobs_thread_local.jobs = XSH.all_jobs
    XSH.env["AUTO_CONTINUE"] = False
    stubs = {}
    real_pids = []
    tokens = {}
    _released.clear()
    _release_all.clear()
    log = []
    steps = []

    def snapshot():
        jobs = XSH.all_jobs
        tab = []
        extra = sorted(k for k in jobs if not (isinstance(k, int) and 1 <= k <= maxjobs))
        for n in range(1, maxjobs + 1):
            j = jobs.get(n)
            if j is None:
                tab.append({"present": False, "bg": False, "status": "none"})
            else:
                tab.append({"present": True, "bg": bool(j["bg"]), "status": str(j["status"])})
        return tab, [int(x) for x in xj._tasks_main], extra

    truncated = False
    for st in scn["steps"]:
        cmd, a, thr = st["cmd"], st["arg"], st.get("thr", "main")
        out, err, rtn, sel = "", "", 0, 0
        log.clear()
        if cmd == "start":
            tasks_now = set(xj._tasks_main)
            remaining = [k for k, j in XSH.all_jobs.items() if not (k in tasks_now and j["obj"].poll() is not None)]
            if len(remaining) >= maxjobs:
                truncated = True  # the bounded model has no free number here (planning divergence)
                break
            proc = StubProc()
            info = {"cmds": [["stub"]], "pids": [None], "status": "running", "obj": proc, "bg": a["kind"] == "bg",
                    "pipeline": StubPipeline(log), "pgrp": None}
            before = set(XSH.all_jobs)
            xj.add_job(info)
            new = [k for k, v in XSH.all_jobs.items() if v is info]
            sel = new[0] if new else 0
            stubs[id(info)] = proc
        elif cmd == "startfaulty":
            tasks_now = set(xj._tasks_main)
            remaining = [k for k, j in XSH.all_jobs.items() if not (k in tasks_now and j["obj"].poll() is not None)]
            if len(remaining) >= maxjobs:
                truncated = True
                break
            proc = StubProc()
            info = {"cmds": [["stub"]], "pids": [None], "status": "running", "obj": proc, "bg": True,
                    "pipeline": StubPipeline(log), "pgrp": None}
            # fault injection: the announcement of the new background job cannot be printed
            old_print, old_int = xj.print_one_job, XSH.env.get("XONSH_INTERACTIVE")
            XSH.env["XONSH_INTERACTIVE"] = True

            def _broken(*a, **k):
                raise OSError(5, "Input/output error")

            xj.print_one_job = _broken
            try:
                xj.add_job(info)
            except OSError:
                pass
            finally:
                xj.print_one_job = old_print
                XSH.env["XONSH_INTERACTIVE"] = old_int
            new = [k for k, v in XSH.all_jobs.items() if v is info]
            sel = new[0] if new else 0
        elif cmd == "startreal":
            tasks_now = set(xj._tasks_main)
            remaining = [k for k, j in XSH.all_jobs.items() if not (k in tasks_now and j["obj"].poll() is not None)]
            if len(remaining) >= maxjobs and a["kind"] != "alias":
                truncated = True
                break
            token = f"tok{len(steps)}"
            src = {"proc": "sleep 300 &", "proc|proc": "sleep 300 | sleep 301 &", "proc|alias": f"sleep 300 | verif_wait {token} &",
                   "alias|proc": "verif_quick | sleep 300 &", "alias": "verif_quick &"}[a["kind"]]
            before = dict(XSH.all_jobs)
            g = {}
            XSH.execer.exec(src + "\n", glbs=g, locs=g)
            new = [k for k, v in XSH.all_jobs.items() if before.get(k) is not v]
            sel = new[0] if new else 0
            for k in new:
                real_pids.extend(p for p in XSH.all_jobs[k]["pids"] if p)
                tokens[id(XSH.all_jobs[k])] = token
        elif cmd == "exit":
            j = XSH.all_jobs.get(a["n"])
            if j is not None and not isinstance(j["obj"], StubProc):
                if j["obj"].poll() is not None:
                    truncated = True
                    break
                _released.add(tokens.get(id(j)))
                for p in j["pids"]:
                    if p:
                        try:
                            os.kill(p, signal.SIGKILL)
                        except ProcessLookupError:
                            pass
                t0 = time.time()
                while j["obj"].poll() is None and time.time() - t0 < 20:
                    time.sleep(0.01)
                if j["obj"].poll() is None:
                    raise RuntimeError("real job did not terminate")
            elif j is None or j["obj"].returncode is not None:
                truncated = True  # the planned environment step is not possible in the real state
                break
            else:
                j["obj"].returncode = 0
        elif cmd == "stop":
            # what proc_untraced_waitpid records on WIFSTOPPED
            j = XSH.all_jobs.get(a["n"])
            if j is None or not isinstance(j["obj"], StubProc) or j["obj"].returncode is not None or j["status"] != "running":
                truncated = True
                break
            j["status"] = "stopped"
            j["bg"] = True
        elif cmd == "jobs":
            buf = io.StringIO()
            fn = lambda: _call(xj.jobs, [], stdout=buf)  # noqa: E731
            out, err, rtn = _in_thread(fn) if thr == "alias" else fn()
            out = buf.getvalue()
        elif cmd in ("fg", "bg"):
            f = xj.fg if cmd == "fg" else xj.bg
            fn = lambda: _call(f, _arg_strs(a))  # noqa: E731
            out, err, rtn = _in_thread(fn) if thr == "alias" else fn()
            res = [x for x in log if x[0] == "resume"]
            if res:
                hit = [k for k, v in XSH.all_jobs.items() if id(v) == res[0][1]]
                sel = hit[0] if hit else -1
        elif cmd == "disown":
            fn = lambda: _call(xj.disown, [str(i) for i in st["ids"]])  # noqa: E731
            out, err, rtn = _in_thread(fn) if thr == "alias" else fn()
            # disown reports success and failure both through its first (stdout) slot
            if "is not a valid job ID" in (out or "") or "There are no active jobs" in (out or ""):
                err = out
            if "is not a valid job ID" in (err or "") or "There are no active jobs" in (err or ""):
                pass
        else:
            raise ValueError(cmd)
        tab, tasks, extra = snapshot()
        listed = []
        if cmd == "jobs":
            for line in out.splitlines():
                m = re.search(r"'num': (\d+)", line)
                listed.append(int(m.group(1)) if m else -1)
        obs = {"tab": tab, "tasks": tasks, "failed": bool(rtn != 0 or (err or "").strip()), "out": listed, "sel": sel, "extra": extra}
        steps.append({"cmd": cmd, "arg": a, "ids": st.get("ids", []), "thr": thr, "obs": obs, "err": (err or "")[:120]})
    # clean up real children
    _release_all.set()
    for p in real_pids:
        try:
            os.kill(p, signal.SIGKILL)
        except ProcessLookupError:
            pass
    for j in list(XSH.all_jobs.values()):
        if not isinstance(j["obj"], StubProc):
            t0 = time.time()
            while j["obj"].poll() is None and time.time() - t0 < 10:
                time.sleep(0.01)
    for p in real_pids:
        try:
            os.waitpid(p, os.WNOHANG)
        except (ChildProcessError, OSError):
            pass
    XSH.all_jobs.clear()
    xj._tasks_main.clear()
    return {"maxjobs": maxjobs, "steps": steps, "truncated": truncated}
