"""Driver for C20: executes Jobs scenarios on the real xonsh.procs.jobs module with stub
process/pipeline objects whose poll() is scripted (no signals are ever sent: pids=[None],
pgrp=None, exactly like alias stages).  Alias-thread commands run on a real second thread."""

from __future__ import annotations

import io
import re
import threading

from harness import xsession


class StubProc:
    def __init__(self):
        self.returncode = None
        self.pid = None

    def poll(self):
        return self.returncode


class StubSpec:
    captured = "hiddenobject"


class StubPipeline:
    def __init__(self, log):
        self.spec = StubSpec()
        self.log = log

    def resume(self, job, tee_output=True):
        self.log.append(("resume", id(job), tee_output))


def setup(wd):
    XSH = xsession.load()
    return {"XSH": XSH}


def _in_thread(fn):
    box = {}

    def target():
        try:
            box["r"] = fn()
        except BaseException as e:  # noqa: BLE001
            box["e"] = e

    t = threading.Thread(target=target, name="verif-alias-thread")
    t.start()
    t.join(30)
    if t.is_alive():
        raise RuntimeError("alias thread hung")
    if "e" in box:
        raise box["e"]
    return box["r"]


def _call(fn, args, **kw):
    """Call a command function the way the alias machinery does; normalise its result to
    (out, err, rtn)."""
    try:
        r = fn(list(args), **kw)
    except SystemExit as e:  # argparse usage error inside ArgParserAlias
        return "", "usage error", int(e.code or 0) or 2
    out, err, rtn = "", "", 0
    if r is None:
        pass
    elif isinstance(r, str):
        out = r
    elif isinstance(r, int):
        rtn = r
    elif isinstance(r, tuple):
        if len(r) >= 1 and r[0]:
            out = r[0]
        if len(r) >= 2 and r[1]:
            err = r[1]
        if len(r) >= 3 and r[2]:
            rtn = r[2]
    return out, err, rtn


def _arg_strs(a):
    k = a["kind"]
    if k == "none":
        return []
    if k == "plus":
        return ["+"]
    if k == "minus":
        return ["-"]
    if k == "junk":
        return ["x1"]
    if k == "two":
        return ["1", "2"]
    return [str(a["n"])]


def run(ctx, scn):
    import xonsh.procs.jobs as xj

    XSH = ctx["XSH"]
    maxjobs = scn["maxjobs"]
    XSH.all_jobs.clear()
    xj._tasks_main.clear()
    # make sure the main thread's thread-local view is the main table
    xj._jobs_thread_local.tasks = xj._tasks_main
    xj._jobs_thread_local.jobs = XSH.all_jobs
    XSH.env["AUTO_CONTINUE"] = False
    stubs = {}
    log = []
    steps = []

    def snapshot():
        jobs = XSH.all_jobs
        tab = []
        extra = sorted(k for k in jobs if not (isinstance(k, int) and 1 <= k <= maxjobs))
        for n in range(1, maxjobs + 1):
            j = jobs.get(n)
            if j is None:
                tab.append({"present": False, "bg": False, "status": "none"})
            else:
                tab.append({"present": True, "bg": bool(j["bg"]), "status": str(j["status"])})
        return tab, [int(x) for x in xj._tasks_main], extra

    truncated = False
    for st in scn["steps"]:
        cmd, a, thr = st["cmd"], st["arg"], st.get("thr", "main")
        out, err, rtn, sel = "", "", 0, 0
        log.clear()
        if cmd == "start":
            tasks_now = set(xj._tasks_main)
            remaining = [k for k, j in XSH.all_jobs.items() if not (k in tasks_now and j["obj"].poll() is not None)]
            if len(remaining) >= maxjobs:
                truncated = True  # the bounded model has no free number here (planning divergence)
                break
            proc = StubProc()
            info = {"cmds": [["stub"]], "pids": [None], "status": "running", "obj": proc, "bg": a["kind"] == "bg",
                    "pipeline": StubPipeline(log), "pgrp": None}
            before = set(XSH.all_jobs)
            xj.add_job(info)
            new = [k for k, v in XSH.all_jobs.items() if v is info]
            sel = new[0] if new else 0
            stubs[id(info)] = proc
        elif cmd == "exit":
            j = XSH.all_jobs.get(a["n"])
            if j is None or j["obj"].returncode is not None:
                truncated = True  # the planned environment step is not possible in the real state
                break
            j["obj"].returncode = 0
        elif cmd == "stop":
            # what proc_untraced_waitpid records on WIFSTOPPED
            j = XSH.all_jobs.get(a["n"])
            if j is None or j["obj"].returncode is not None or j["status"] != "running":
                truncated = True
                break
            j["status"] = "stopped"
            j["bg"] = True
        elif cmd == "jobs":
            buf = io.StringIO()
            fn = lambda: _call(xj.jobs, [], stdout=buf)  # noqa: E731
            out, err, rtn = _in_thread(fn) if thr == "alias" else fn()
            out = buf.getvalue()
        elif cmd in ("fg", "bg"):
            f = xj.fg if cmd == "fg" else xj.bg
            fn = lambda: _call(f, _arg_strs(a))  # noqa: E731
            out, err, rtn = _in_thread(fn) if thr == "alias" else fn()
            res = [x for x in log if x[0] == "resume"]
            if res:
                hit = [k for k, v in XSH.all_jobs.items() if id(v) == res[0][1]]
                sel = hit[0] if hit else -1
        elif cmd == "disown":
            fn = lambda: _call(xj.disown, [str(i) for i in st["ids"]])  # noqa: E731
            out, err, rtn = _in_thread(fn) if thr == "alias" else fn()
            # disown reports success and failure both through its first (stdout) slot
            if "is not a valid job ID" in (out or "") or "There are no active jobs" in (out or ""):
                err = out
            if "is not a valid job ID" in (err or "") or "There are no active jobs" in (err or ""):
                pass
        else:
            raise ValueError(cmd)
        tab, tasks, extra = snapshot()
        listed = []
        if cmd == "jobs":
            for line in out.splitlines():
                m = re.search(r"'num': (\d+)", line)
                listed.append(int(m.group(1)) if m else -1)
        obs = {"tab": tab, "tasks": tasks, "failed": bool(rtn != 0 or (err or "").strip()), "out": listed, "sel": sel, "extra": extra}
        steps.append({"cmd": cmd, "arg": a, "ids": st.get("ids", []), "thr": thr, "obs": obs, "err": (err or "")[:120]})
    return {"maxjobs": maxjobs, "steps": steps, "truncated": truncated}
