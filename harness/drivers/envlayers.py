"""Driver for C11: executes EnvLayers scenarios on a real xonsh Env with a long-lived worker
thread commanded one operation at a time (deterministic interleaving at operation granularity);
after each step every read path is sampled in both threads."""

from __future__ import annotations

import queue
import threading

from harness import xsession

KEYS = ["VG", "VD", "VU"]


def setup(wd):
    XSH = xsession.load()
    return {"XSH": XSH}


class Worker:
    def __init__(self):
        self.q = queue.Queue()
        self.r = queue.Queue()
        self.t = threading.Thread(target=self.loop, name="verif-env-worker", daemon=True)
        self.t.start()

    def loop(self):
        while True:
            fn = self.q.get()
            if fn is None:
                return
            try:
                self.r.put(("ok", fn()))
            except BaseException as e:  # noqa: BLE001
                self.r.put(("exc", e))

    def call(self, fn):
        self.q.put(fn)
        kind, val = self.r.get(timeout=30)
        if kind == "exc":
            raise val
        return val

    def stop(self):
        self.q.put(None)


class Boom(Exception):
    pass


def run(ctx, scn):
    from xonsh.environ import Env
    from xonsh.environ import DELETE_VAR

    keys = scn["keys"]
    env = Env(VG="g0")
    env.register("VD", type="str", default="d0")
    worker = Worker()
    scopes = {"main": [], "w": []}
    steps = []

    def on(t, fn):
        return fn() if t == "main" else worker.call(fn)

    def conv(v):
        return DELETE_VAR if v == "DEL" else v

    def view():
        out = {}
        for k in keys:
            try:
                item = env[k]
                item = "DEL" if item is DELETE_VAR else str(item)
            except KeyError:
                item = "KeyError"
            g = env.get(k, "<none>")
            out[k] = {"item": item, "has": k in env, "get": "DEL" if g is DELETE_VAR else str(g), "iter": k in list(env)}
        return out

    try:
        for st in scn["steps"]:
            cmd, t = st["cmd"], st["t"]
            err, out = False, {k: "-" for k in keys}
            if cmd == "enter":
                kv = {k: conv(st["m"][k]) for k in KEYS if st["m"].get(k, "-") != "-"}
                ov = {k: conv(v) for k, v in st["o"].items() if v != "-"} if st["withOvl"] else None

                def do():
                    cm = env.swap(kv, overlay=ov) if ov is not None else env.swap(kv)
                    cm.__enter__()
                    scopes[t].append((cm, ov))

                on(t, do)
            elif cmd == "exit":

                def do():
                    cm, ov = scopes[t].pop()
                    if st["v"] in ("exc", "sysexit"):
                        kind = Boom if st["v"] == "exc" else SystemExit
                        try:
                            raise kind("leaving the scope by exception")
                        except kind as e:
                            try:
                                cm.__exit__(kind, e, e.__traceback__)
                            except kind:
                                return False
                            return False
                    else:
                        cm.__exit__(None, None, None)
                    return False

                try:
                    on(t, do)
                except KeyError:
                    err = True
            elif cmd == "set":
                on(t, lambda: env.__setitem__(st["k"], conv(st["v"])))
            elif cmd == "del":
                try:
                    on(t, lambda: env.__delitem__(st["k"]))
                except KeyError:
                    err = True
            elif cmd == "ovlset":
                on(t, lambda: [ov for _cm, ov in scopes[t] if ov is not None][-1].__setitem__(st["k"], conv(st["v"])))
            elif cmd == "detype":
                d = on(t, lambda: dict(env.detype()))
                out = {k: str(d[k]) if k in d else "-" for k in keys}
            elif cmd == "inherit":
                src = st["v"]
                vals = on(src, lambda: env.get_swapped_values())
                on(t, lambda: env.set_swapped_values(vals))
            elif cmd == "drop":
                on(t, lambda: env.set_swapped_values({}))
            elif cmd == "respawn":
                # the helper thread ends; a new thread is started (its identifier is usually recycled)
                worker.stop()
                worker.t.join(10)
                worker = Worker()
            else:
                raise ValueError(cmd)
            views = {"main": view(), "w": worker.call(view)}
            steps.append({"cmd": cmd, "t": t, "k": st.get("k", ""), "v": st.get("v", ""), "m": st.get("m", {}), "o": st.get("o", {}),
                          "withOvl": bool(st.get("withOvl", False)), "obs": {"views": views, "err": err, "out": out}})
    finally:
        worker.stop()
    return {"keys": keys, "steps": steps}
