"""Driver for C04: concretises an atom sequence with pool strings, renders the command line, runs it
through a callable alias recording `args` and through a real child printing its argv, and classifies
every received argument as the verbatim or the expanded form of an atom's string."""

from __future__ import annotations

import os
import subprocess

from harness import xsession

POOL = {
    "plain": ["abc", "either-or", "--mode=and", "a:b", "x/y.txt", "-f"],
    "space": ["a b", " lead", "two  spaces "],
    "star": ["*zz*", "q?q", "[ab]x"],
    "dollar": ["$VERIFVAR", "pre$VERIFVAR", "$VERIFVAR/x", "$VERIFTPL $VERIFDIR", "$VERIFDIRS $VERIFDIR"],
    "tilde": ["~", "~/sub"],
    "quotes": ["a'b", 'a"b', "a'b\"c"],
    "bslash": ["a\\", "\\"],
    "newline": ["a\nb", "l1\n"],
    "brace": ["{x}", "a{1,2}b", "}{"],
    "empty": [""],
    "nonascii": ["ü𝄞", "日本"],
}
VAL = "VALUE OF VAR"  # contains spaces: must not be re-split
ENVV = {"VERIFVAR": VAL, "VERIFTPL": "cost:$VERIFDIR", "VERIFDIR": "/srv/data"}  # VERIFDIRS stays unset


def setup(wd):
    XSH = xsession.load()
    rec = {"args": None}

    def argv(args, stdin=None):
        rec["args"] = list(args)
        return 0

    XSH.aliases["argv"] = argv
    for k, v in ENVV.items():
        XSH.env[k] = v
    XSH.env["EXPAND_ENV_VARS"] = True
    d = os.path.join(wd, "cwd")
    os.makedirs(d, exist_ok=True)
    child = os.path.join(wd, "child.sh")
    with open(child, "w") as fh:
        fh.write('#!/bin/sh\nfor a in "$@"; do printf "%s\\0" "$a"; done\n')
    os.chmod(child, 0o755)
    return {"XSH": XSH, "rec": rec, "cwd": d, "child": child}


def expanded(s, home):
    import re

    # one left-to-right pass: each reference is replaced by the variable's value (never re-expanded),
    # references to unset variables stay as they are
    out = re.sub(r"\$(\w+)", lambda m: ENVV.get(m.group(1), m.group(0)), s)
    if out == "~" or out.startswith("~/"):
        out = home + out[1:]
    return out


def _pylit(s, prefix=""):
    r = repr(s)
    return prefix + r


def render_atom(i, a, s, g):
    k = a["kind"]
    name = f"v{i}"
    if k == "word":
        return s
    if k == "quoted":
        return _pylit(s)
    if k == "raw":
        # not every string has a raw literal (trailing backslash, both quote kinds, newline)
        for q in ("'", '"', "'''", '"""'):
            if q[0] not in s and "\n" not in s and not s.endswith("\\"):
                return "r" + q + s + q
        return None
    if k == "triple":
        if "'''" in s or s.endswith("'") or s.endswith("\\") or "\\" in s:
            return None
        return "'''" + s + "'''"
    if k == "fstr":
        g[name] = s
        return "f'{" + name + "}'"
    if k == "inj1":
        g[name] = s
        return f"@({name})"
    if k == "injN":
        g[name] = [s, s + "2"]
        return f"@({name})"
    if k == "injgen":
        g[name] = [s, s + "2"]
        return f"@(x for x in {name})"
    if k == "glued":
        g[name] = s
        return f"pre@({name})post"
    if k == "envvar":
        return None  # set below through the environment
    if k == "macro":
        return s
    raise ValueError(k)


def classify(argv, atoms, strings, home):
    """Map each received argument to [atom, part, how]; anything else is reported as text."""
    cands = []
    for i, (a, s) in enumerate(zip(atoms, strings), 1):
        k = a["kind"]
        parts = [s, s + "2"] if k in ("injN", "injgen") else [s]
        if k == "glued":
            parts = ["pre" + s + "post"]
        for p, text in enumerate(parts, 1):
            ex = expanded(text, home)  # (a glued atom is expanded as one word: pre + value + post)
            cands.append((i, p, text, ex))
    out = []
    ci = 0
    for arg in argv:
        hit = None
        for j in range(ci, len(cands)):
            i, p, text, ex = cands[j]
            if arg == text:
                hit = {"atom": i, "part": p, "how": "verbatim"}
            elif arg == ex:
                hit = {"atom": i, "part": p, "how": "expanded"}
            if hit:
                ci = j + 1
                break
        out.append(hit or {"atom": 0, "part": 0, "how": "other:" + repr(arg)[:60]})
    return out


def run(ctx, scn):
    XSH, rec = ctx["XSH"], ctx["rec"]
    atoms = scn["atoms"]
    home = os.path.expanduser("~")
    strings = [POOL[a["cls"]][scn["pick"][i] % len(POOL[a["cls"]])] for i, a in enumerate(atoms)]
    g = {}
    texts = []
    os.chdir(ctx["cwd"])
    for i, (a, s) in enumerate(zip(atoms, strings), 1):
        if a["kind"] == "envvar":
            XSH.env[f"VERIFE{i}"] = s
            texts.append(f"$VERIFE{i}")
            continue
        t = render_atom(i, a, s, g)
        if t is None:
            return {"skipped": True, "steps": []}
        texts.append(t)
    results = {}
    src_shown = ""
    for target in ("alias", "child"):
        cmd = "argv" if target == "alias" else ctx["child"]
        if atoms[0]["kind"] == "macro":
            line = f"{cmd}! {texts[0]}"
        else:
            line = cmd + " " + " ".join(texts)
        src = f"__out = $({line})\n"
        src_shown = src_shown or line
        rec["args"] = None
        gg = dict(g)
        try:
            XSH.execer.exec(src, glbs=gg, locs=gg, filename="<verif-args>")
            if target == "alias":
                argv = rec["args"]
            else:
                out = gg.get("__out") or ""
                argv = out.split("\0")[:-1] if out else []
            results[target] = classify(argv if argv is not None else ["<alias not called>"], atoms, strings, home)
        except Exception as e:  # noqa: BLE001
            results[target] = [{"atom": 0, "part": 0, "how": f"exception:{type(e).__name__}: {e}"[:100]}]
    if atoms[0]["kind"] == "macro":
        # the macro text is one argument: the source text after `!` (leading blank dropped)
        pass
    return {"atoms": atoms, "steps": [{"cmd": "run", "atoms": atoms, "obs": {"alias_argv": results["alias"], "child_argv": results["child"], "line": src_shown, "strings": strings}}]}
