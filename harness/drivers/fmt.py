"""Driver for C17: format a source text with the real formatter and compare meaning.

  accepted      format_source returned (FormatError otherwise)
  same_tree     xonsh's own three-phase parse of output == parse of input (locations dropped);
                string constants, subprocess argument lists and macro bodies are Constant nodes of
                that tree, so they are compared byte for byte
  comments_same the sequence of comment texts (tokenizer COMMENT tokens, right-stripped) is unchanged
  idempotent    format_source(output) == output
  for rejected input: the command-line entry point must fail and leave the file untouched"""

from __future__ import annotations

import ast
import builtins
import io
import os

from harness import xsession


def setup(wd):
    XSH = xsession.load()
    return {"XSH": XSH, "wd": wd}


import string

# names the Python-side templates use are bound (so `a==b` is a comparison, not a command called
# "a==b"); command words (echo, ls, git, ...) are not
BOUND = set(dir(builtins)) | set(string.ascii_letters) | {"dec", "path", "sep", "os", "sys", "gg"}


def tree_of(XSH, src):
    try:
        t = XSH.execer.parse(src, ctx=BOUND, mode="exec", filename="<verif-c17>")
        return (ast.dump(t, include_attributes=False) if t is not None else "None"), ""
    except SyntaxError as e:
        return None, "SyntaxError"
    except RecursionError:
        return None, "RecursionError"
    except Exception as e:  # noqa: BLE001
        return None, type(e).__name__


def py_tree_of(src):
    import warnings

    try:
        with warnings.catch_warnings():
            warnings.simplefilter("ignore")
            return ast.dump(ast.parse(src), include_attributes=False), ""
    except (SyntaxError, ValueError, RecursionError, MemoryError) as e:
        return None, type(e).__name__


def comments_of(src):
    from xonsh.parsers.tokenize import COMMENT, tokenize

    out = []
    try:
        for tok in tokenize(io.BytesIO(src.encode("utf-8")).readline):
            if tok.type == COMMENT:
                out.append(tok.string.strip())
    except Exception:  # noqa: BLE001
        return None
    return out


def run(ctx, scn):
    from xonsh.formatter.core import FormatError, format_source

    XSH = ctx["XSH"]
    src = scn["src"]
    obs = {"accepted": True, "same_tree": True, "comments_same": True, "idempotent": True, "kind": "ok", "premise": True}
    try:
        out = format_source(src)
    except FormatError as e:
        out = None
        obs.update(accepted=False, kind="rejected", detail=str(e)[:120])
    except Exception as e:  # noqa: BLE001
        out = None
        obs.update(accepted=False, kind="crashed", detail=f"{type(e).__name__}: {e}"[:200], same_tree=False)
    if out is None:
        if obs["kind"] == "rejected":
            # never rewritten: run the command-line entry point on a file holding the text
            from xonsh.formatter import cli

            path = os.path.join(ctx["wd"], "rejected.xsh")
            with open(path, "w", encoding="utf-8", newline="") as fh:
                fh.write(src)
            import contextlib

            err = io.StringIO()
            with contextlib.redirect_stderr(err), contextlib.redirect_stdout(io.StringIO()):
                try:
                    rc = cli.main([path])
                except SystemExit as e:
                    rc = e.code
                except Exception as e:  # noqa: BLE001
                    rc = f"{type(e).__name__}"
            with open(path, encoding="utf-8", newline="") as fh:
                after = fh.read()
            obs["cli_rc"] = rc if isinstance(rc, int) else str(rc)
            obs["untouched"] = after == src
            if after != src or rc in (0, None):
                obs["kind"] = "rejected-but-rewritten" if after != src else "rejected-but-exit-0"
                obs["same_tree"] = False
        return {"src": src, "out": None, "feat": scn.get("feat", {}), "steps": [{"cmd": "format", "obs": obs}]}
    if scn.get("pyoracle"):
        # a text of the pure-Python corpus: CPython's own parser is the (exact and fast) meaning oracle
        tin, ein = py_tree_of(src)
        tout, eout = py_tree_of(out)
    else:
        tin, ein = tree_of(XSH, src)
        tout, eout = tree_of(XSH, out)
    if ein:
        # the input itself is not a xonsh program: outside the premise (the output must not become one either)
        obs["premise"] = False
        obs["kind"] = "input-not-a-program"
    else:
        obs["same_tree"] = tin == tout
        if tin != tout:
            obs["kind"] = "meaning-changed" if not eout else "output-rejected"
    cin, cout = comments_of(src), comments_of(out)
    obs["comments_same"] = cin == cout
    if cin != cout and obs["kind"] == "ok":
        obs["kind"] = "comments-changed"
    try:
        again = format_source(out)
    except Exception as e:  # noqa: BLE001
        again = f"<{type(e).__name__}>"
    obs["idempotent"] = again == out
    if again != out and obs["kind"] == "ok":
        obs["kind"] = "not-idempotent"
    obs["changed"] = out != src
    if scn.get("cli"):
        # the command-line entry point rewriting a file in place must leave exactly format_source's output
        from xonsh.formatter import cli
        import contextlib

        path = os.path.join(ctx["wd"], "inplace.xsh")
        with open(path, "w", encoding="utf-8", newline="") as fh:
            fh.write(src)
        with contextlib.redirect_stderr(io.StringIO()), contextlib.redirect_stdout(io.StringIO()):
            try:
                cli.main([path])
            except SystemExit:
                pass
        with open(path, encoding="utf-8", newline="") as fh:
            on_disk = fh.read()
        # (the entry point reads the file with universal newlines: a CRLF file that is otherwise
        #  formatted is "unchanged" and keeps its line ends)
        same = on_disk == out or on_disk.replace("\r\n", "\n") == out
        obs["cli_same"] = same
        if not same:
            obs["same_tree"] = False
            if obs["kind"] == "ok":
                obs["kind"] = "file-rewritten-differently"
            obs["detail"] = f"file after `xonsh format` in place: {on_disk[:200]!r}"
    res = {"src": src, "out": out, "feat": scn.get("feat", {}), "steps": [{"cmd": "format", "obs": obs}]}
    if again != out:
        res["again"] = again
    return res
