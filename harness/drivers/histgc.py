"""Driver for C14: materialises collections of history files (real ljdump files with explicit
timestamps, lock flags, corrupt and zero-length members) in a scratch $XONSH_DATA_DIR and performs
real garbage-collection runs (JsonHistory.run_gc / SqliteHistory.run_gc), plus direct calls of the
pure selection functions."""

from __future__ import annotations

import contextlib
import io
import os
import shutil
import time

from harness import xsession

SCALE = 1000  # one model age unit = 1000 s


def setup(wd):
    XSH = xsession.load()
    return {"XSH": XSH, "wd": wd, "n": 0}


def _write_file(path, rec, now, boot):
    import xonsh.lib.lazyjson as xlj

    age = rec["age"] * SCALE
    if rec["kind"] == "empty":
        open(path, "w").close()
        os.utime(path, (now - age, now - age))
        return
    if rec["kind"] == "corrupt":
        with open(path, "w") as fh:
            fh.write('{"locs": [1, 2, garbage')
        os.utime(path, (now - age, now - age))
        return
    end = now - age
    if rec["lock"] == "live":
        ts = [now - 1.0, None]
    elif rec["lock"] == "stale":
        ts = [min(boot - 100.0, end - 10.0), end]
    else:
        ts = [end - 10.0, end]
    cmds = [{"inp": f"cmd {rec['id']}-{i} " + "x" * (17 * rec.get("pad", 0)), "rtn": 0, "ts": [end - 9.0 + i * 0.1, end - 8.9 + i * 0.1]} for i in range(rec["ncmds"])]
    meta = {"cmds": cmds, "sessionid": f"sess-{rec['id']}", "ts": ts, "locked": rec["lock"] != "no"}
    with open(path, "w", newline="\n", encoding="utf-8") as fh:
        xlj.ljdump(meta, fh, sort_keys=True)
    # the file's mtime deliberately disagrees with the closing timestamp order
    m = now - (10 - rec["age"]) * 37
    os.utime(path, (m, m))


def run(ctx, scn):
    import xonsh.history.json as xhj
    import xonsh.xoreutils.uptime as uptime
    from xonsh.history.json import JsonHistory

    XSH = ctx["XSH"]
    ctx["n"] += 1
    base = os.path.join(ctx["wd"], f"data{ctx['n']}")
    shutil.rmtree(base, ignore_errors=True)
    os.makedirs(os.path.join(base, "history_json"))
    env = XSH.env
    env["XONSH_DATA_DIR"] = base
    env["XONSH_HISTORY_FILE"] = None
    env["XONSH_DEBUG"] = 0
    now = time.time()
    boot = uptime.boottime() or (now - 3600)
    steps = []
    files = {}
    hist = None
    sq = None
    try:
        for st in scn["steps"]:
            cmd = st["cmd"]
            if cmd == "add":
                rec = st["file"]
                path = os.path.join(base, "history_json", f"xonsh-f{rec['id']:02d}.json")
                _write_file(path, rec, now, boot)
                files[rec["id"]] = path
                rec = dict(rec, bytes=os.path.getsize(path) if rec["kind"] != "empty" else 0, age=rec["age"] * SCALE)
                steps.append({"cmd": "add", "file": rec, "unit": "", "limit": 0, "force": False, "custom": False, "obs": {}})
            elif cmd == "live":
                # the running session itself (constructed the way xonsh.shell does): a live,
                # locked file that must always survive
                hist = JsonHistory(gc=False, sessionid="live-session", save_cwd=False, ts=[now - 1.0, None], locked=True, env={})
                XSH.history = hist
                hist.append({"inp": "live cmd", "rtn": 0, "ts": [now - 0.5, now - 0.4]})
                hist.flush()
                _wait_flush(hist)
                files[99] = hist.filename
                rec = {"id": 99, "age": 0, "ncmds": 1, "bytes": os.path.getsize(hist.filename), "lock": "live", "kind": "ok"}
                steps.append({"cmd": "add", "file": rec, "unit": "", "limit": 0, "force": False, "custom": False, "obs": {}})
            elif cmd == "damage_live":
                # the live session's file is damaged on disk; its next periodic flush rebuilds it
                with open(hist.filename, "w") as fh:
                    fh.write('{"locs": [1, 2, garbage')
                hist.append({"inp": "after damage", "rtn": 0, "ts": [now - 0.3, now - 0.2]})
                hist.flush()
                _wait_flush(hist)
                steps.append({"cmd": "damage", "file": _nofile(), "unit": "", "limit": 0, "force": False, "custom": False, "obs": {}})
            elif cmd == "select":
                cands = []
                for s in steps:
                    if s["cmd"] == "add" and s["file"]["id"] in files and s["file"]["kind"] != "corrupt" and s["file"]["lock"] != "live":
                        f = s["file"]
                        cands.append((now - f["age"], 0 if f["kind"] == "empty" else f["ncmds"], files[f["id"]], f["bytes"]))
                cands.sort()
                unit, limit = st["unit"], _limit(st, steps, files)
                fn = {"commands": xhj._xhj_gc_commands_to_rmfiles, "files": xhj._xhj_gc_files_to_rmfiles, "s": xhj._xhj_gc_seconds_to_rmfiles, "b": xhj._xhj_gc_bytes_to_rmfiles}[unit]
                over, rm = fn(limit, cands)
                inv = {p: i for i, p in files.items()}
                if unit == "s":
                    over = int(round(over / SCALE)) * SCALE if over else 0
                steps.append({"cmd": "select", "file": _nofile(), "unit": unit, "limit": limit, "force": True, "custom": False,
                              "obs": {"removed": sorted(inv[t[2]] for t in rm), "over": int(over), "refused": False}})
            elif cmd == "gc":
                # sizes may have changed since the file was written (a stale lock is cleared by
                # rewriting the file during an earlier enumeration): re-measure
                for srec in [x for x in steps if x["cmd"] in ("add", "update")]:
                    f = srec["file"]
                    if f["id"] in files and f["kind"] == "ok" and os.path.exists(files[f["id"]]):
                        cur = os.path.getsize(files[f["id"]])
                        latest = [y["file"] for y in steps if y["cmd"] in ("add", "update") and y["file"]["id"] == f["id"]][-1]
                        if latest["bytes"] != cur:
                            steps.append({"cmd": "update", "file": dict(latest, bytes=cur), "unit": "", "limit": 0, "force": False, "custom": False, "obs": {}})
                unit, limit = st["unit"], _limit(st, steps, files)
                buf = io.StringIO()
                with contextlib.redirect_stdout(buf), contextlib.redirect_stderr(buf):
                    gc = xhj.JsonHistoryGC(wait_for_shell=False, size=(limit, unit), force=bool(st["force"])) if hist is None else None
                    if hist is not None:
                        hist.run_gc(size=(limit, unit), force=bool(st["force"]), blocking=True)
                    else:
                        gc.join(60)
                remaining = sorted(i for i, p in files.items() if os.path.exists(p))
                live_ok = hist is None or os.path.exists(hist.filename)
                if hist is not None and live_ok:
                    remaining = sorted(set(remaining) | {99})
                for i in list(files):
                    if not os.path.exists(files[i]):
                        del files[i]
                steps.append({"cmd": "gc", "file": _nofile(), "unit": unit, "limit": limit, "force": bool(st["force"]), "custom": False,
                              "obs": {"remaining": remaining, "refused": "would discard more history" in buf.getvalue(), "live_ok": live_ok, "msg": buf.getvalue()[:200]}})
            elif cmd == "addrow":
                from xonsh.history.sqlite import SqliteHistory

                if sq is None:
                    custom = bool(scn.get("custom_db"))
                    env["XONSH_HISTORY_SQLITE_FILE"] = os.path.join(base, "default.sqlite")
                    fn = os.path.join(base, "custom.sqlite") if custom else None
                    sq = SqliteHistory(gc=False, filename=fn, sessionid="sq-live", save_cwd=False)
                t = st["t"]
                sq.append({"inp": f"row {t}", "rtn": 0, "ts": [1000000.0 + t, 1000000.5 + t]})
                steps.append({"cmd": "addrow", "file": _nofile(), "unit": "", "limit": t, "force": False, "custom": bool(scn.get("custom_db")), "obs": {}})
            elif cmd == "sqlgc":
                import sqlite3

                buf = io.StringIO()
                with contextlib.redirect_stdout(buf), contextlib.redirect_stderr(buf):
                    sq.run_gc(size=(st["limit"], "commands"), blocking=True)
                con = sqlite3.connect(sq.filename)
                rows = sorted(int(r[0] - 1000000.0) for r in con.execute("SELECT tsb FROM xonsh_history"))
                con.close()
                steps.append({"cmd": "sqlgc", "file": _nofile(), "unit": "commands", "limit": st["limit"], "force": False, "custom": bool(scn.get("custom_db")),
                              "obs": {"rows": rows}})
            else:
                raise ValueError(cmd)
    finally:
        XSH.history = None
        shutil.rmtree(base, ignore_errors=True)
    return {"steps": steps}


def _nofile():
    return {"id": 0, "age": 0, "ncmds": 0, "bytes": 0, "lock": "no", "kind": "ok"}


def _wait_flush(hist):
    t0 = time.time()
    while time.time() - t0 < 20:
        if not hist._queue:
            return
        time.sleep(0.005)
    raise RuntimeError("history flusher did not finish")


def _limit(st, steps, files):
    """Symbolic byte limits: {"newest": k, "delta": d} = size of the k newest candidates + d."""
    lim = st["limit"]
    if isinstance(lim, dict):
        latest = {}
        for s in steps:
            if s["cmd"] in ("add", "update"):
                latest[s["file"]["id"]] = s["file"]
        cands = [f for f in latest.values() if f["id"] in files and f["kind"] != "corrupt" and f["lock"] != "live"]
        cands.sort(key=lambda f: f["age"])
        tot = sum(f["bytes"] for f in cands[: lim["newest"]])
        return max(0, tot + lim["delta"])
    if st["unit"] == "s":
        return int(lim * SCALE + SCALE // 2) if lim > 0 else 0
    return int(lim)
