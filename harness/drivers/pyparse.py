"""Driver for C01: parse a Python source text with CPython (the oracle) and with xonsh's parser
(table regenerated from the working tree) and compare the trees after location-free normalisation."""

from __future__ import annotations

import ast
import os


def setup(wd):
    from xonsh.parser import Parser

    # never the checked-in, unvalidated table: regenerate from the working tree's grammar
    outdir = os.path.join(wd, "ptab")
    os.makedirs(outdir, exist_ok=True)
    p = Parser(yacc_optimize=False, yacc_table="verif_parser_table", outputdir=outdir)
    if getattr(p, "_yacc_loader", None) is not None:
        p._yacc_loader.ready.wait()
        if p._yacc_loader.error is not None:
            raise p._yacc_loader.error
    return {"parser": p}


def _canon(node):
    """Location-free canonical form.  Absent fields, None and [] are the same thing (compile() treats
    them alike: `type_params`, `type_ignores`, `decorator_list` ...); Constant.kind and type_comment
    are dropped; everything else - node kind, every identifier-bearing field, constants by type and
    value, contexts, operators, arity and order of children - is kept."""
    if isinstance(node, ast.AST):
        items = []
        for f in node._fields:
            if f in ("kind", "type_comment"):
                continue
            v = getattr(node, f, None)
            c = _canon(v)
            if c is None or c == []:
                continue
            items.append((f, c))
        return (type(node).__name__, items)
    if isinstance(node, list):
        return [_canon(x) for x in node]
    if isinstance(node, (int, float, complex, str, bytes, bool)) or node is None or node is Ellipsis:
        return None if node is None else (type(node).__name__, repr(node))
    return ("?", repr(node))


def norm(tree):
    return repr(_canon(tree))


def first_diff(a, b):
    i = next((k for k in range(min(len(a), len(b))) if a[k] != b[k]), min(len(a), len(b)))
    return a[max(0, i - 80): i + 80], b[max(0, i - 80): i + 80]


def run(ctx, scn):
    p = ctx["parser"]
    src, mode = scn["src"], scn.get("mode", "exec")
    obs = {"cpy": True, "xsh": True, "same": True, "compiles": True, "kind": "ok"}
    try:
        ct = ast.parse(src, mode=mode)
        cn = norm(ct)
    except (SyntaxError, ValueError, RecursionError, MemoryError) as e:
        obs.update(cpy=False, kind="not-python", detail=f"{type(e).__name__}: {e}"[:100])
        return {"src": src, "mode": mode, "prods": scn.get("prods", []), "steps": [{"cmd": "parse", "obs": obs}]}
    try:
        xt = p.parse(src, mode=mode, filename="<verif-c01>")
        if mode == "exec" and isinstance(xt, ast.Expression):
            # the execer's own wrapping of a sole expression statement (see Execer.parse)
            xt = ast.Module(body=[p.expr(xt.body)], type_ignores=[])
        if mode == "eval" and isinstance(xt, ast.Module) and len(xt.body) == 1 and isinstance(xt.body[0], ast.Expr):
            xt = ast.Expression(body=xt.body[0].value)
        if xt is None:
            xt = ast.Module(body=[], type_ignores=[]) if mode == "exec" else None
        xn = norm(xt) if xt is not None else "None"
    except SyntaxError as e:
        obs.update(xsh=False, same=False, compiles=False, kind="rejected", detail=str(e)[:100])
        return {"src": src, "mode": mode, "prods": scn.get("prods", []), "steps": [{"cmd": "parse", "obs": obs}]}
    except Exception as e:  # noqa: BLE001
        obs.update(xsh=False, same=False, compiles=False, kind="crashed", detail=f"{type(e).__name__}: {e}"[:160])
        return {"src": src, "mode": mode, "prods": scn.get("prods", []), "steps": [{"cmd": "parse", "obs": obs}]}
    if xn != cn:
        obs["same"] = False
        obs["kind"] = "tree-differs"
        obs["diff"] = first_diff(cn, xn)
    try:
        compile(xt, "<verif-c01>", mode)
    except Exception as e:  # noqa: BLE001
        try:
            compile(ct, "<verif-c01>", mode)
            obs["compiles"] = False
            if obs["kind"] == "ok":
                obs["kind"] = "compile-fails"
            obs["detail"] = f"{type(e).__name__}: {e}"[:120]
        except Exception:  # noqa: BLE001
            pass  # CPython's own tree does not compile either (e.g. `return` outside a function)
    return {"src": src, "mode": mode, "prods": scn.get("prods", []), "steps": [{"cmd": "parse", "obs": obs}]}
