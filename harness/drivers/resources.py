"""Driver for C09: run one pipeline shape (with a fault injected by construction of the command) a few
times in a loaded session and compare the process state before and after: open file descriptors
(with their targets), threads, child processes, working directory, sys.std* identity, signal
handlers, environment, and whether a self-sent SIGINT still raises KeyboardInterrupt."""

from __future__ import annotations

import os
import signal
import sys
import threading
import time

from harness import xsession

SIGS = ["SIGINT", "SIGTSTP", "SIGQUIT", "SIGWINCH"]


def setup(wd):
    XSH = xsession.load()

    def pa(args, stdin=None, stdout=None, stderr=None):
        for i in range(int(args[0]) if args else 50):
            print("line%d" % i, file=stdout)
        return 0

    def fa(args, stdin=None, stdout=None, stderr=None):
        n = 0
        for ln in stdin:
            stdout.write(ln)
            n += 1
        return 0

    def ra(args, stdin=None, stdout=None, stderr=None):
        print("before raising", file=stdout)
        raise RuntimeError("alias failure injected by the harness")

    def xa(args, stdin=None, stdout=None, stderr=None):
        return 7

    XSH.aliases["pa"] = pa
    XSH.aliases["fa"] = fa
    XSH.aliases["ra"] = ra
    XSH.aliases["xa"] = xa
    from xonsh.tools import unthreadable

    @unthreadable
    def ua(args, stdin=None, stdout=None, stderr=None):
        print("unthreaded alias", file=stdout)
        return 0

    XSH.aliases["ua"] = ua
    XSH.env["XONSH_SUBPROC_RAISE_ERROR"] = False
    XSH.env["XONSH_SUBPROC_CMD_RAISE_ERROR"] = False
    XSH.env["XONSH_SHOW_TRACEBACK"] = False
    os.chdir(wd)
    with open(os.path.join(wd, "in.txt"), "w") as fh:
        fh.write("".join("line%d\n" % i for i in range(40)))
    XSH.env["PWD"] = wd
    # the handlers the session starts with: what every command has to put back
    pristine = [signal.getsignal(getattr(signal, s)) for s in SIGS]
    # the session as it is before any command has run: a command that damages it on its *first* run (and
    # every time after) shows against this, not against a snapshot taken after a warm-up run
    base = snapshot(XSH)
    saved_std = {fd: os.dup(fd) for fd in (0, 1, 2) if fd in fd_table()}
    return {"XSH": XSH, "wd": wd, "pristine": pristine, "base_fdfiles": [list(x) for x in fd_table_files()], "base_env": base["env"], "base_environ": base["environ"], "saved_std": saved_std}


def render(scn):
    kinds, fault, at = scn["kinds"], scn["fault"], scn["at"]
    n = len(kinds)
    parts = []
    for k, kind in enumerate(kinds, 1):
        first, last = k == 1, k == n
        if kind == "ualias":
            cmd = "ua"
        elif fault == "not_found" and at == k:
            cmd = "nosuchcmd_verif_%d arg" % k
        elif fault == "alias_raises" and at == k:
            cmd = "ra"
        elif fault == "consumer_exits_early" and last:
            cmd = "head -c 1" if kind == "proc" else "xa"
        elif kind == "proc":
            if first:
                big = fault == "consumer_exits_early"
                cmd = "sh -c 'yes 0123456789 | head -c 3000000'" if big else "sh -c 'i=0; while [ $i -lt 40 ]; do echo line$i; i=$((i+1)); done'"
            else:
                cmd = "cat"
        else:
            if first:
                cmd = "pa 100000" if fault == "consumer_exits_early" else "pa 40"
            else:
                cmd = "fa"
        if first and fault == "input_missing":
            cmd += " < /nonexistent_verif_input_file"
        elif first and scn.get("infile"):
            cmd = ("cat" if kind == "proc" else "fa") + " < in.txt"
        if fault == "redirect_conflict" and at == k:
            # two redirections of the same stream: refused with an error before anything runs
            cmd += [" > out.txt o>e", " > out.txt > out2.txt", " e> err.txt e>o", " a> out.txt o> out2.txt"][scn.get("variant", 0) % 4]
        if scn.get("redirect") == k:
            target = "/nonexistent_dir_verif/out.txt" if (fault == "redirect_unopenable" and at == k) else scn.get("rtarget", "out.txt")
            cmd += f" {scn.get('rop', '>')} {target}"
        parts.append(cmd)
    line = " | ".join(parts)
    form = scn.get("form", "bare")
    if form == "background":
        return line + " &"
    return {"bare": line, "bang": f"![{line}]", "dollarsq": f"$[{line}]", "dollar": f"_v = $({line})", "object": f"_p = !({line})\n_p.end()\n_o = _p.out", "objectlazy": f"_p = !({line})\n_r = _p.rtn"}[form]


def _state(pid):
    try:
        with open(f"/proc/{pid}/stat") as fh:
            return fh.read().rsplit(")", 1)[1].split()[0]
    except OSError:
        return "?"


def children():
    """Children that are still running (zombies are listed separately as `zombies`)."""
    return {p for p in _children_all() if _state(p) not in ("Z", "?")}


def zombies():
    return {p for p in _children_all() if _state(p) == "Z"}


def _children_all():
    out = set()
    try:
        for tid in os.listdir("/proc/self/task"):
            try:
                with open(f"/proc/self/task/{tid}/children") as fh:
                    out.update(fh.read().split())
            except OSError:
                pass
    except OSError:
        pass
    # zombies we have not reaped count as children too
    return out


def fd_table():
    table = {}
    for fd in os.listdir("/proc/self/fd"):
        try:
            target = os.readlink(f"/proc/self/fd/{fd}")
        except OSError:
            continue  # the descriptor of the listing itself
        table[int(fd)] = target
    return table


def fd_table_files():
    return sorted((fd, t) for fd, t in fd_table().items() if not t.startswith(("pipe:", "socket:", "anon_inode:")))


def fd_classes(table):
    out = {}
    for fd, t in table.items():
        cls = "pipe" if t.startswith("pipe:") else "socket" if t.startswith("socket:") else "anon" if t.startswith("anon_inode:") else t
        out[cls] = out.get(cls, 0) + 1
    return out


def _handler_name(h):
    """A stable name for a signal handler (bound methods of per-command thread objects differ per run)."""
    owner = getattr(h, "__self__", None)
    name = getattr(h, "__qualname__", None) or repr(h)
    if owner is not None:
        alive = getattr(owner, "is_alive", lambda: None)()
        return f"{type(owner).__name__}.{getattr(h, '__name__', '?')}(owner alive={alive})"
    return name


def snapshot(XSH):
    env = dict(XSH.env.detype())
    for k in ("LAST_RETURN_CODE", "OLDPWD", "_", "__ALIAS_STACK", "__ALIAS_NAME"):
        env.pop(k, None)
    return {
        "fds": fd_classes(fd_table()),
        "fdfiles": sorted((fd, t) for fd, t in fd_table().items() if not t.startswith(("pipe:", "socket:", "anon_inode:"))),
        "threads": sorted(t.name for t in threading.enumerate() if t.is_alive()),
        "children": sorted(children()),
        "zombies": len(zombies()),
        "cwd": os.getcwd(),
        "std": [id(sys.stdin), id(sys.stdout), id(sys.stderr), id(sys.__stdout__)],
        "handlers": [_handler_name(signal.getsignal(getattr(signal, s))) for s in SIGS],
        "environ": dict(os.environ),
        "env": env,
    }


def settle(XSH, before, limit=3.0):
    """Daemon pump threads and just-exited children may need a moment: poll until the snapshot equals
    `before` or the limit passes."""
    import gc

    deadline = time.time() + limit
    while True:
        gc.collect()  # descriptors owned by unreachable pipeline objects are closed when they are collected
        now = snapshot(XSH)
        if now == before or time.time() > deadline:
            return now
        time.sleep(0.05)


class Hang(BaseException):
    pass


def _on_alarm(signum, frame):
    raise Hang()


def run_once(XSH, src, limit=12):
    ns = {}
    old = signal.signal(signal.SIGALRM, _on_alarm)
    signal.setitimer(signal.ITIMER_REAL, limit)
    try:
        XSH.execer.exec(src + "\n", glbs=ns, locs=ns, filename="<verif-c09>")
        return ""
    except Hang:
        return "HANG"
    except SystemExit as e:
        return f"SystemExit({e.code})"
    except BaseException as e:  # noqa: BLE001
        return type(e).__name__
    finally:
        signal.setitimer(signal.ITIMER_REAL, 0)
        signal.signal(signal.SIGALRM, old)


def sigint_works():
    """'interrupts' (KeyboardInterrupt raised), 'swallowed' (nothing happens within 1 s) or the name of
    any other exception the handler chain raises."""
    try:
        signal.raise_signal(signal.SIGINT)  # delivered to this (the main) thread, synchronously
        t0 = time.time()
        while time.time() - t0 < 1.0:
            time.sleep(0.01)
        return "swallowed"
    except KeyboardInterrupt:
        return "interrupts"
    except BaseException as e:  # noqa: BLE001
        return type(e).__name__


def run(ctx, scn):
    XSH = ctx["XSH"]
    src = render(scn)
    for f in ("out.txt",):
        try:
            os.remove(os.path.join(ctx["wd"], f))
        except OSError:
            pass
    # one unmeasured warm-up (lazily created session-wide handles are not leaks)
    exc0 = run_once(XSH, src)
    if exc0 == "HANG":
        obs = {"clean": True, "diff": {}, "diagnostics": {"hang": 1}, "sigint": True, "exc": "HANG", "kinds": []}
        return {"scn": scn, "src": src, "steps": [{"cmd": "run", "obs": obs}], "hang": True}
    before = settle(XSH, snapshot(XSH), limit=1.0)
    before = snapshot(XSH)
    excs = []
    for _ in range(scn.get("repeat", 3)):
        excs.append(run_once(XSH, src))
        if excs[-1] == "HANG":
            break  # (advisory, see below: a run that exceeded the limit is not repeated)
    after = settle(XSH, before)
    # only growth counts: a helper thread of the warm-up that was still finishing when `before` was taken
    # is not a leak of the measured runs
    diff = {}
    grown = {c: [before["fds"].get(c, 0), n] for c, n in after["fds"].items() if n > before["fds"].get(c, 0)}
    if grown:
        diff["fds"] = grown
    # a descriptor of the session itself (a file, the terminal, /dev/null - not a pipe of the warm-up that a
    # helper was still closing) that is gone or points elsewhere afterwards: the command closed what it did not own
    lost = [[fd, t] for fd, t in before["fdfiles"] if (fd, t) not in after["fdfiles"]]
    if lost:
        diff["fds_lost"] = lost
    more_threads = [t for t in after["threads"] if t not in before["threads"]]
    if more_threads:
        diff["threads"] = more_threads
    more_children = [c for c in after["children"] if c not in before["children"]]
    if more_children:
        diff["children"] = more_children
    if after["zombies"] > before["zombies"]:
        diff["zombies"] = [before["zombies"], after["zombies"]]
    for k in ("cwd", "std", "handlers"):
        if before[k] != after[k]:
            diff[k] = [before[k], after[k]]
    for k in ("environ", "env"):
        if before[k] != after[k]:
            keys = set(before[k]) | set(after[k])
            diff[k] = {x: [before[k].get(x), after[k].get(x)] for x in sorted(keys) if before[k].get(x) != after[k].get(x)}
    # against the session before any command ran: session descriptors lost, environment entries that stay behind
    now_files = fd_table_files()
    now_set = {(fd, t) for fd, t in now_files}
    lost0 = [[fd, t] for fd, t in ctx["base_fdfiles"] if (fd, t) not in now_set and fd in ctx["saved_std"]]
    if lost0:
        diff["fds_lost"] = diff.get("fds_lost", []) + lost0
        for fd, _t in lost0:
            os.dup2(ctx["saved_std"][fd], fd)  # put it back: the next scenario starts with a whole session again
    # alias bookkeeping (`__ALIAS_STACK`, `__ALIAS_NAME`) is swapped in for the duration of an alias call: once
    # every helper thread has ended none of it may still be visible in the session environment
    if "threads" not in diff:
        for x in list(XSH.env):
            if x.startswith("__ALIAS") and x not in ctx["base_env"]:
                diff.setdefault("env_left_behind", {})[x] = [None, str(XSH.env.get(x))]
                del XSH.env[x]
    # the handlers must be the ones the session started with (not merely the same as after the warm-up)
    now_handlers = [signal.getsignal(getattr(signal, s)) for s in SIGS]
    for sname, h0, h1 in zip(SIGS, ctx["pristine"], now_handlers):
        if h0 is not h1 and h0 != h1:
            diff.setdefault("handlers", {})
            if isinstance(diff["handlers"], list):
                diff["handlers"] = {"snapshot": diff["handlers"]}
            diff["handlers"][sname] = [_handler_name(h0), _handler_name(h1)]
    # Ctrl-C is tried with whatever handlers the command left behind; only then are the session's own
    # handlers put back so that the next scenario starts clean
    ok_int = sigint_works()
    for s_, h0 in zip(SIGS, ctx["pristine"]):
        signal.signal(getattr(signal, s_), h0)
    if "std" in diff:
        sys.stdout, sys.stderr = sys.__stdout__, sys.__stderr__
    # Verdict-bearing: descriptors, running children, cwd, environment, Ctrl-C - deterministic after settling.
    # Advisory only (timing-dependent without full schedule control, see DESIGN.md 2.4): helper threads still
    # alive, sys.std* swapped by overlapping alias threads, a run exceeding the time limit, stale handlers, zombies.
    # repeating a command that succeeds cannot start to fail (a session wedged by its own bookkeeping)
    if scn["fault"] == "none" and any(e not in ("", "HANG") for e in excs):
        diff["raised_on_repeat"] = [exc0] + excs
    diagnostics = {k: diff.pop(k) for k in ("handlers", "zombies", "threads", "std") if k in diff}
    if any(e == "HANG" for e in excs):
        diagnostics["hang"] = excs.count("HANG")
    # Ctrl-C: raising anything but KeyboardInterrupt is a deterministic failure of the handler chain; a
    # swallowed Ctrl-C was seen on the pinned tree but depends on which helper thread restored its saved
    # handler last (timing): advisory
    if ok_int == "swallowed":
        diagnostics["ctrl_c_swallowed"] = 1
    if ok_int not in ("interrupts", "swallowed"):
        diff["ctrl_c"] = f"a self-sent SIGINT raised {ok_int} instead of KeyboardInterrupt"
    ok_int = ok_int in ("interrupts", "swallowed")
    obs = {"clean": not diff and ok_int, "diagnostics": {k: str(v)[:200] for k, v in diagnostics.items()}, "diff": {k: (str(v)[:300]) for k, v in diff.items()}, "sigint": ok_int, "exc": excs[-1], "kinds": sorted(diff)}
    return {"scn": scn, "src": src, "steps": [{"cmd": "run", "obs": obs}]}
