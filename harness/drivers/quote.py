"""Driver for C18.

(a) completion: a name (sequence of alphabet symbols) becomes a real file or directory in an empty
    scratch directory; the user has typed `c0 ` plus an opening-quote style plus the first k plain
    characters of the name; the real completer pipeline (path completer only) is asked for
    completions; each completion is spliced into the line the way the shells do and the completed
    line is *executed* with a recording callable alias: the recorded argv must be exactly the name.
(b) analyser: CompletionContextParser.parse(text, cursor) for any text and cursor must not raise
    and, when it yields a command context, prefix + suffix must reproduce the text around the cursor."""

from __future__ import annotations

import collections
import os
import shutil

from harness import xsession

SYM = {
    "a": "a", "sp": " ", "sq": "'", "dq": '"', "dl": "$", "bs": "\\", "nl": "\n", "tab": "\t", "bang": "!", "star": "*", "qm": "?",
    "tilde": "~", "dash": "-", "hash": "#", "lb": "{", "rb": "}", "amp": "&",
    # a second tier of symbols used by the wider (sampled) universe
    "b": "b", "semi": ";", "pipe": "|", "gt": ">", "lt": "<", "lp": "(", "rp": ")", "lk": "[", "rk": "]", "comma": ",", "bq": "`", "eq": "=",
    "pct": "%", "at": "@", "colon": ":", "caret": "^", "dot": ".", "cr": "\r", "uni": "é", "and": "and",
}
OPEN = {"none": "", "sq": "'", "dq": '"', "rsq": "r'", "rdq": 'r"'}


def setup(wd):
    XSH = xsession.load()
    from xonsh.completer import Completer
    from xonsh.completers.path import complete_path

    XSH._completers = collections.OrderedDict(path=complete_path)
    log = []

    def c0(args, stdin=None, stdout=None, stderr=None):
        log.append(list(args))
        return 0

    XSH.aliases["c0"] = c0
    # make wrong expansions observable
    XSH.env["a"] = "EXPANDED"
    XSH.env["ab"] = "EXPANDED2"
    XSH.env["XONSH_SHOW_TRACEBACK"] = False
    return {"XSH": XSH, "completer": Completer(), "log": log, "wd": wd}


def name_of(syms):
    return "".join(SYM[s] for s in syms)


def run_complete(ctx, scn):
    from xonsh.completers.tools import RichCompletion

    XSH, comp, log = ctx["XSH"], ctx["completer"], ctx["log"]
    name = name_of(scn["name"])
    d = os.path.join(ctx["wd"], "d")
    shutil.rmtree(d, ignore_errors=True)
    os.makedirs(d)
    os.chdir(d)
    try:
        if scn.get("dir"):
            os.mkdir(os.path.join(d, name))
        else:
            open(os.path.join(d, name), "w").close()
    except OSError as e:
        return {"name": scn["name"], "open": scn["open"], "steps": [], "skipped": f"cannot create: {e}"}
    opening = OPEN[scn["open"]]
    k = scn.get("typed", 0)  # in symbols of the name
    typed = opening + name_of(scn["name"][:k])
    ca = scn.get("closing", "no") if opening != "" else "no"
    if scn.get("closing_after"):
        ca = "after"
    closing_after = ca == "after"
    # "after": the closing quote is already in the line after the cursor; "closed": the user typed the
    # closing quote too and asks for completions with the cursor right after it
    line = "c0 " + typed + (opening[-1] if ca != "no" else "")
    cursor = len("c0 " + typed) + (1 if ca == "closed" else 0)
    begidx = line[:cursor].rfind(" ") + 1
    prefix = line[begidx:cursor]
    obs = {"line": line, "cursor": cursor}
    try:
        comps, lprefix = comp.complete(prefix, line, begidx, cursor, ctx={}, multiline_text=line, cursor_index=cursor)
    except Exception as e:  # noqa: BLE001
        obs.update(kind="completer-raised", detail=f"{type(e).__name__}: {e}"[:200], ok=False, inserted="")
        return {"name": scn["name"], "open": scn["open"], "dir": bool(scn.get("dir")), "typed": k, "closing": ca, "text": name, "steps": [{"cmd": "complete", "obs": obs}]}
    # the `./` and `../` entries offered for an empty prefix are not the file
    comps = [c for c in comps if str(c).strip().lstrip("rR").strip("'\"") not in ("./", "../")]
    if not comps:
        obs.update(kind="no-completion", ok=True, inserted="")
    results = []
    for c in comps:
        plen = c.prefix_len if isinstance(c, RichCompletion) and c.prefix_len is not None else lprefix
        new = line[: cursor - plen] + str(c) + line[cursor:]
        del log[:]
        g = {}
        try:
            XSH.execer.exec(new + "\n", glbs=g, locs=g, filename="<verif-c18>")
            got = list(log[-1]) if log else None
            kind = "ran"
        except SyntaxError:
            got, kind = None, "syntax-error"
        except BaseException as e:  # noqa: BLE001
            got, kind = None, "raised:" + type(e).__name__
        want = name + ("/" if scn.get("dir") else "")
        ok = kind == "ran" and got is not None and len(log) == 1 and (got == [want] or (scn.get("dir") and got == [name]))
        results.append({"inserted": str(c), "completed_line": new, "argv": got, "kind": kind, "ok": bool(ok)})
    if results:
        bad = [r for r in results if not r["ok"]]
        pick = bad[0] if bad else results[0]
        obs.update(kind=pick["kind"] if bad else "ran", ok=not bad, inserted=pick["inserted"], completed_line=pick["completed_line"], argv=pick["argv"], ncomp=len(results))
    return {"name": scn["name"], "open": scn["open"], "dir": bool(scn.get("dir")), "typed": k, "closing": ca, "text": name, "steps": [{"cmd": "complete", "obs": obs}]}


def run_analyse(ctx, scn):
    comp = ctx["completer"]
    text, cursor = scn["text"], scn["cursor"]
    obs = {"ok": True, "kind": "none"}
    try:
        cc = comp.parse(text, cursor)
    except BaseException as e:  # noqa: BLE001
        obs = {"ok": False, "kind": "raised", "detail": f"{type(e).__name__}: {e}"[:200]}
        cc = None
    if cc is not None and cc.command is not None:
        cmd = cc.command
        pre, suf = cmd.prefix, cmd.suffix
        oq, cq = cmd.opening_quote, cmd.closing_quote
        obs["kind"] = "command"
        obs["prefix"], obs["suffix"], obs["oq"], obs["cq"] = pre, suf, oq, cq
        # the raw text before the cursor ends with opening quote + prefix; after it starts with suffix
        # the analyser may join backslash line continuations: accept the literal text or the joined text
        def holds(strip):
            f = (lambda x: x.replace("\\\n", "")) if strip else (lambda x: x)
            before, after = f(text[:cursor]), f(text[cursor:])
            if cmd.is_after_closing_quote:
                b = before.endswith(f(oq + pre + cq))
            else:
                b = before.endswith(f(oq + pre))
            return b and after.startswith(f(suf))

        okb = oka = holds(False) or holds(True)
        obs["ok"] = bool(okb and oka)
        if not obs["ok"]:
            obs["kind"] = "mismatch"
    elif cc is not None and cc.python is not None:
        obs["kind"] = "python"
        py = cc.python
        obs["ok"] = py.multiline_code[: py.cursor_index] == py.prefix and 0 <= py.cursor_index <= len(py.multiline_code)
        if not obs["ok"]:
            obs["kind"] = "mismatch"
    return {"text": text, "cursor": cursor, "steps": [{"cmd": "analyse", "obs": obs}]}


def run(ctx, scn):
    if "text" in scn:
        return run_analyse(ctx, scn)
    return run_complete(ctx, scn)
