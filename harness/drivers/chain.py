"""Driver for C05: renders a chain configuration to xonsh source whose commands are scripted callable
aliases (or real `sh -c 'exit N'` children) and executes it; observes the ordered run log, the
exception escaping the statement and whether the next statement ran."""

from __future__ import annotations

import contextlib
import io
import os
import subprocess
import sys

from harness import xsession


def setup(wd):
    XSH = xsession.load()
    state = {"log": [], "rc": {}, "out": {}, "inner": {}}

    def mk(name):
        def alias(args, stdin=None, stdout=None, stderr=None):
            state["log"].append(name)
            if state["out"].get(name):
                print("o" + name, file=stdout)
            if state["inner"].get(name):
                # the alias runs a (successful) command of its own before it returns its code
                XSH.subproc_captured_stdout(["sh", "-c", "exit 0"])
            return state["rc"].get(name, 0)

        return alias

    for i in range(4):
        XSH.aliases[f"c{i}"] = mk(f"c{i}")
    XSH.aliases["cp"] = mk("cp")  # second stage of a piped leaf
    return {"XSH": XSH, "state": state, "wd": wd}


def leaf_src(i, leaf, real=False):
    name = f"c{i}"
    if real:
        body = f"sh -c 'echo r{i} >> $VERIF_LOG; {'echo o;' if leaf['out'] else ''} exit {leaf['rc']}' x" if leaf["kind"] == "cmd" else \
               f"sh -c 'echo r{i} >> $VERIF_LOG; {'echo o;' if leaf['out'] else ''} exit {leaf['rc']}' /x"
    else:
        body = f"{name} q" if leaf["kind"] == "cmd" else f"{name} /q"
    if leaf.get("pipe"):
        body = body + " | " + ("cp q" if leaf["kind"] == "cmd" else "cp /q")
    if leaf["dec"] == "raise":
        body = "@error_raise " + body
    elif leaf["dec"] == "ignore":
        body = "@error_ignore " + body
    form = leaf["form"]
    if form == "bare":
        return body
    if form == "bang":
        return f"![{body}]"
    if form == "dollarsq":
        return f"$[{body}]"
    if form == "dollar":
        return f"$({body})"
    if form == "object":
        return f"!({body})"
    raise ValueError(form)


def render(cfg, real=False):
    parts = [leaf_src(i, leaf, real) for i, leaf in enumerate(cfg["leaves"])]
    if len(parts) == 1 and cfg["leaves"][0]["form"] == "object":
        return parts[0] + ".rtn"  # a standalone !() is lazy: consume it
    src = parts[0]
    for op, p in zip(cfg["ops"], parts[1:]):
        src += (" && " if op == "and" else " || ") + p
    return src


def run_e2e(ctx, scn):
    """The same configuration as a real xonsh process (`-c` or a script file) with real children:
    binds the process exit status (non-zero after a raise, 0 on success)."""
    cfg = scn["cfg"]
    wd = ctx["wd"]
    log = os.path.join(wd, "e2e.log")
    if os.path.exists(log):
        os.remove(log)
    big = scn["e2e"].endswith("-bigrc")
    chain = render(cfg, real=not big)
    prelude = ""
    if big:
        # callable aliases returning raw wait statuses (256 * code), logging to the file
        prelude = "import os\n" + "".join(
            f"def _c{i}(args, stdin=None, stdout=None):\n    open(os.environ['VERIF_LOG'], 'a').write('r{i}\\n')\n" + ("    print('o', file=stdout)\n" if l["out"] else "") + f"    return {256 * l['rc']}\naliases['c{i}'] = _c{i}\n"
            for i, l in enumerate(cfg["leaves"]))
    src = prelude + (f"$XONSH_SUBPROC_RAISE_ERROR = {bool(cfg['raise'])}\n$XONSH_SUBPROC_CMD_RAISE_ERROR = {bool(cfg['cmdraise'])}\n"
           f"$XONSH_SHOW_TRACEBACK = False\n{chain}\nsh -c 'echo marker >> $VERIF_LOG'\n")
    env = dict(os.environ, VERIF_LOG=log, PYTHONPATH="/repo", XONSH_SHOW_TRACEBACK="0")
    if scn["e2e"].startswith("script"):
        path = os.path.join(wd, "e2e.xsh")
        with open(path, "w") as fh:
            fh.write(src)
        cmd = [sys.executable, "-m", "xonsh", "--no-rc", path]
    else:
        cmd = [sys.executable, "-m", "xonsh", "--no-rc", "-c", src]
    p = subprocess.run(cmd, env=env, stdout=subprocess.PIPE, stderr=subprocess.PIPE, text=True, timeout=120, cwd=wd)
    lines = open(log).read().split() if os.path.exists(log) else []
    ran = [int(x[1:]) + 1 for x in lines if x.startswith("r")]
    obs = {"ran": ran, "raised": p.returncode != 0, "exc": f"exit status {p.returncode}" if p.returncode else "", "marker": "marker" in lines,
           "src": f"[{scn['e2e']}] " + chain, "status": p.returncode, "stderr": p.stderr[-200:]}
    return {"cfg": cfg, "steps": [{"cmd": "run", "cfg": cfg, "obs": obs}]}


def run(ctx, scn):
    if scn.get("e2e"):
        return run_e2e(ctx, scn)
    XSH, state = ctx["XSH"], ctx["state"]
    cfg = scn["cfg"]
    env = XSH.env
    late = bool(scn.get("late"))
    # late: the environment holds the opposite values while the source is compiled; the source sets
    # the flags itself before the chain runs
    env["XONSH_SUBPROC_RAISE_ERROR"] = bool(cfg["raise"]) != late
    env["XONSH_SUBPROC_CMD_RAISE_ERROR"] = bool(cfg["cmdraise"]) != late
    state["log"].clear()
    state["rc"] = {f"c{i}": leaf["rc"] for i, leaf in enumerate(cfg["leaves"])}
    state["out"] = {f"c{i}": leaf["out"] for i, leaf in enumerate(cfg["leaves"])}
    state["inner"] = {f"c{i}": bool(leaf.get("inner")) for i, leaf in enumerate(cfg["leaves"])}
    # the second stage of a piped leaf: its code is the leaf's code, the first stage gets the opposite
    for i, leaf in enumerate(cfg["leaves"]):
        if leaf.get("pipe"):
            state["rc"]["cp"] = leaf["rc"]
            state["rc"][f"c{i}"] = 1 - leaf["rc"]
            state["out"]["cp"] = leaf["out"]
    src = render(cfg) + "\n__marker.append(1)\n"
    if late:
        src = f"$XONSH_SUBPROC_RAISE_ERROR = {bool(cfg['raise'])}\n$XONSH_SUBPROC_CMD_RAISE_ERROR = {bool(cfg['cmdraise'])}\n" + src
    g = {"__marker": []}
    exc = None
    buf = io.StringIO()
    with contextlib.redirect_stdout(buf), contextlib.redirect_stderr(buf):
        try:
            XSH.execer.exec(src, glbs=g, locs=g, filename="<verif-chain>")
        except subprocess.CalledProcessError as e:
            exc = {"type": "CalledProcessError", "rc": e.returncode}
        except SyntaxError as e:
            exc = {"type": "SyntaxError", "rc": -1, "msg": str(e)[:100]}
        except Exception as e:  # noqa: BLE001
            exc = {"type": type(e).__name__, "rc": -1, "msg": str(e)[:100]}
        # a trailing !() operand is lazy: nobody consumed it, so make sure it has run (and cannot
        # leak into the next scenario's log)
        try:
            lc = XSH.lastcmd
            if lc is not None and hasattr(lc, "end"):
                lc.end()
        except Exception:  # noqa: BLE001
            pass
    import threading
    import time

    t0 = time.time()
    while time.time() - t0 < 5 and any(type(t).__name__ == "ProcProxyThread" and t.is_alive() for t in threading.enumerate()):
        time.sleep(0.002)
    ran = [int(x[1]) + 1 for x in state["log"] if x != "cp"]
    obs = {"ran": ran, "raised": exc is not None, "exc": exc["type"] if exc else "", "marker": bool(g["__marker"]), "src": ("[late flags] " if late else "") + src.splitlines()[2 if late else 0]}
    return {"cfg": cfg, "steps": [{"cmd": "run", "cfg": cfg, "obs": obs}]}
