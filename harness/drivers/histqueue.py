"""Driver for C12 (concurrent part): replays acquisition orders of the JSON history ticket queue
(background flushers, exit-time flusher, file readers) on a real JsonHistory, using the guarded
schedule points of xonsh.lib.verifhooks to hold every ticket just before it takes the condition."""

from __future__ import annotations

import os
import shutil
import threading
import time

from harness import xsession


def setup(wd):
    XSH = xsession.load()
    return {"XSH": XSH, "wd": wd, "n": 0}


class Controller:
    def __init__(self):
        self.lock = threading.Lock()
        self.gates = {}  # id(ticket) -> Event
        self.arrived = []  # ids in arrival order
        self.done = set()
        self.hold = True

    def __call__(self, name, fields):
        t = fields["ticket"]
        if name == "histq.before_acquire":
            with self.lock:
                ev = threading.Event()
                self.gates[id(t)] = ev
                self.arrived.append(id(t))
            if self.hold:
                ev.wait(30)
        elif name == "histq.done":
            with self.lock:
                self.done.add(id(t))

    def wait_arrivals(self, n, timeout=10):
        t0 = time.time()
        while time.time() - t0 < timeout:
            with self.lock:
                if len(self.arrived) >= n:
                    return True
            time.sleep(0.002)
        return False


def run(ctx, scn):
    import xonsh.lib.lazyjson as xlj
    from xonsh.history.json import JsonHistory
    from xonsh.lib import verifhooks

    XSH = ctx["XSH"]
    ctx["n"] += 1
    base = os.path.join(ctx["wd"], f"hq{ctx['n']}")
    shutil.rmtree(base, ignore_errors=True)
    os.makedirs(os.path.join(base, "history_json"))
    XSH.env["XONSH_DATA_DIR"] = base
    XSH.env["XONSH_HISTORY_FILE"] = None
    XSH.env["HISTCONTROL"] = set()
    hist = JsonHistory(gc=False, sessionid="q1", save_cwd=False, buffersize=1000, ts=[time.time(), None], locked=True)
    XSH.history = hist
    # two commands already on disk (so that index 0 is read from the file)
    hist.append({"inp": "on disk 0", "rtn": 0, "ts": [1.0, 1.5]})
    hist.append({"inp": "on disk 1", "rtn": 0, "ts": [2.0, 2.5]})
    hist.flush()
    t0 = time.time()
    while hist._queue and time.time() - t0 < 10:
        time.sleep(0.002)
    ctl = Controller()
    verifhooks.install(ctl)
    threads = {}
    results = {}
    ticket_of = {}
    appended = ["on disk 0", "on disk 1"]
    obs = {}
    try:
        # create the tickets in the enqueue order; each stops just before taking the condition
        for name in scn["enqueue"]:
            n_before = len(ctl.arrived)
            if name.startswith("F"):
                text = f"batch {name}"
                hist.append({"inp": text, "rtn": 0, "ts": [10.0 + len(appended), 10.5 + len(appended)]})
                appended.append(text)
                hf = hist.flush()
                threads[name] = hf
            elif name.startswith("X"):
                text = f"batch {name}"
                hist.append({"inp": text, "rtn": 0, "ts": [10.0 + len(appended), 10.5 + len(appended)]})
                appended.append(text)
                th = threading.Thread(target=lambda: hist.flush(at_exit=True), name="verif-exit-flush", daemon=True)
                th.start()
                threads[name] = th
            else:
                def read(nm=name):
                    try:
                        # each reader uses its own field object (its ticket)
                        results[nm] = hist.inps[0] if nm == "R1" else ("on disk 0" if hist.rtns[0] == 0 else "bad rtn")
                    except Exception as e:  # noqa: BLE001
                        results[nm] = f"EXC {type(e).__name__}: {e}"

                th = threading.Thread(target=read, name="verif-reader", daemon=True)
                th.start()
                threads[name] = th
            if not ctl.wait_arrivals(n_before + 1):
                raise RuntimeError(f"ticket {name} did not reach its schedule point")
            ticket_of[name] = ctl.arrived[-1]
        # let them take the condition in the acquisition order
        for name in scn["acquire"]:
            ctl.gates[ticket_of[name]].set()
            time.sleep(0.04)
        deadline = time.time() + 15
        for name, th in threads.items():
            th.join(max(0.0, deadline - time.time()))
        stuck = sorted(n for n, th in threads.items() if th.is_alive())
        obs["stuck"] = stuck
        obs["queue_left"] = len(hist._queue)
        obs["reads_ok"] = all(v == "on disk 0" for v in results.values()) and len(results) == sum(1 for n in scn["enqueue"] if n.startswith("R")) - sum(1 for n in stuck if n.startswith("R"))
        try:
            lj = xlj.LazyJSON(hist.filename, reopen=False)
            disk = [c["inp"] for c in lj.load()["cmds"]]
            lj.close()
        except Exception as e:  # noqa: BLE001
            disk = [f"ERR {type(e).__name__}"]
        obs["disk_in_append_order"] = disk == appended[: len(disk)]
        obs["disk_complete"] = disk == appended
        obs["disk"] = disk
    finally:
        ctl.hold = False
        for ev in ctl.gates.values():
            ev.set()
        verifhooks.install(None)
        XSH.history = None
    return {"enqueue": scn["enqueue"], "acquire": scn["acquire"], "obs": obs, "steps": []}
