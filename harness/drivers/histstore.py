"""Driver for C12 (sequential part): append/flush/read sequences on real JsonHistory and
SqliteHistory objects with command texts from a pool (multi-line, non-BMP, quotes, control
characters, trailing blanks)."""

from __future__ import annotations

import os
import shutil
import sqlite3
import time

from harness import xsession

# text ids of the model -> pool of concrete command texts (one is chosen per scenario)
POOL = [
    {"a": "echo a", "b": "ls -l"},
    {"a": "echo 'ü€𝄞 q\"uote'", "b": "for i in range(3):\n    print(i)\n"},
    {"a": "x = '''tri\nple'''  ", "b": "printf '\\t\\x01 ctrl'\t"},
    {"a": "echo 日本語 && echo é", "b": "echo \\\n  continued"},
    {"a": "𝄞" * 3 + " $HOME `x` \\", "b": "a" * 300},
]


def setup(wd):
    XSH = xsession.load()
    return {"XSH": XSH, "wd": wd, "n": 0}


class QueueStuck(Exception):
    pass


def _wait_quiet(hist):
    t0 = time.time()
    while getattr(hist, "_queue", None) and time.time() - t0 < 8:
        time.sleep(0.002)
    if getattr(hist, "_queue", None):
        raise QueueStuck("history ticket queue did not drain within 8 s")


def run(ctx, scn):
    import xonsh.lib.lazyjson as xlj
    from xonsh.history.json import JsonHistory
    from xonsh.history.sqlite import SqliteHistory

    XSH = ctx["XSH"]
    ctx["n"] += 1
    base = os.path.join(ctx["wd"], f"hs{ctx['n']}")
    shutil.rmtree(base, ignore_errors=True)
    os.makedirs(os.path.join(base, "history_json"))
    env = XSH.env
    env["XONSH_DATA_DIR"] = base
    env["XONSH_HISTORY_FILE"] = None
    conf = scn["conf"]
    env["HISTCONTROL"] = set(conf["opts"])
    env["XONSH_STORE_STDOUT"] = False
    pool = POOL[scn.get("pool", 0) % len(POOL)]
    inv = {}
    sqlite = conf["backend"] == "sqlite"
    for k, v in pool.items():
        inv[v.rstrip() if sqlite else v] = k
    if sqlite:
        hist = SqliteHistory(gc=False, filename=os.path.join(base, "h.sqlite"), sessionid="s1", save_cwd=False)
    else:
        hist = JsonHistory(gc=False, sessionid="s1", save_cwd=False, buffersize=int(conf["buf"]), ts=[time.time(), None], locked=True)
    XSH.history = hist
    steps = []
    n = 0
    stuck = False
    try:
        for st in scn["steps"]:
            cmd = st["cmd"]
            obs = {}
            if stuck:
                break
            try:
                _wait_quiet(hist)
            except QueueStuck as e:
                # an observation, not a harness failure: the history is wedged
                steps.append({"cmd": "read", "t": "", "rtn": 0, "spc": False, "obs": {"len": -1, "views": {"error": [{"t": str(e), "rtn": -1}]}}})
                stuck = True
                break
            if cmd == "append":
                n += 1
                hist.append({"inp": pool[st["t"]], "rtn": int(st["rtn"]), "ts": [1000.0 + n, 1000.5 + n], "spc": bool(st["spc"]), "out": "o"})
            elif cmd == "flush":
                hist.flush()
            elif cmd == "read":
                if not sqlite and set(conf["opts"]) & {"ignoredups", "ignoreerr"}:
                    # the JSON back end applies these rules when it flushes: read after a flush
                    hist.flush()
                try:
                    _wait_quiet(hist)
                except QueueStuck as e:
                    steps.append({"cmd": "read", "t": "", "rtn": 0, "spc": False, "obs": {"len": -1, "views": {"error": [{"t": str(e), "rtn": -1}]}}})
                    stuck = True
                    break

                def ent(inp, rtn):
                    return {"t": inv.get(inp, "?" + repr(inp)[:40]), "rtn": rtn}

                ln = len(hist)
                views = {}
                try:
                    views["index"] = [ent(hist.inps[i], hist.rtns[i]) for i in range(ln)]
                    views["neg_index"] = [ent(hist.inps[i - ln], hist.rtns[i - ln]) for i in range(ln)]
                    views["slice"] = [ent(a, b) for a, b in zip(hist.inps[:], hist.rtns[:])]
                    views["rev_slice"] = [ent(a, b) for a, b in zip(hist.inps[::-1], hist.rtns[::-1])][::-1]
                    views["step_slice"] = [ent(a, b) for a, b in zip(hist.inps[0:ln:1], hist.rtns[0:ln:1])]
                    views["iter"] = [ent(a, b) for a, b in zip(list(hist.inps), list(hist.rtns))]
                    views["entries"] = [ent(hist[i].cmd, hist[i].rtn) for i in range(ln)]
                    # items() is the display API: it drops trailing whitespace in both back ends
                    inv_r = {k.rstrip(): v for k, v in inv.items()}
                    views["items"] = [{"t": inv_r.get(it["inp"], "?" + repr(it["inp"])[:40]), "rtn": views["index"][i]["rtn"] if i < ln else -2} for i, it in enumerate(hist.items())]
                    if not sqlite and not hist.buffer:
                        lj = xlj.LazyJSON(hist.filename, reopen=False)
                        cmds = lj["cmds"]
                        views["disk_lazy"] = [ent(cmds[i]["inp"], cmds[i]["rtn"]) for i in range(len(cmds))]
                        views["disk_ts"] = [ent(cmds[i]["inp"], cmds[i]["rtn"]) for i in range(len(cmds)) if list(cmds[i]["ts"].load()) == list(cmds[i].load()["ts"])]
                        lj.close()
                        with open(hist.filename, "rb") as fh:
                            raw = fh.read()
                        import json as _json

                        whole = _json.loads(raw.decode("utf-8"))["data"]["cmds"]
                        views["disk_whole"] = [ent(c["inp"], c["rtn"]) for c in whole]
                    if sqlite:
                        con = sqlite3.connect(hist.filename)
                        views["disk_table"] = [ent(r[0], r[1]) for r in con.execute("SELECT inp, rtn FROM xonsh_history ORDER BY tsb")]
                        con.close()
                except Exception as e:  # noqa: BLE001
                    views["error"] = [{"t": f"{type(e).__name__}: {e}"[:120], "rtn": -1}]
                obs = {"len": ln, "views": views}
            else:
                raise ValueError(cmd)
            steps.append({"cmd": cmd, "t": st.get("t", ""), "rtn": st.get("rtn", 0), "spc": bool(st.get("spc", False)), "obs": obs})
    finally:
        XSH.history = None
        shutil.rmtree(base, ignore_errors=True)
    return {"conf": conf, "pool": scn.get("pool", 0), "steps": steps}
