"""Driver for C16: executes DirStack scenarios on the real xonsh directory commands (through the
real alias/ArgParserAlias/return-code plumbing) inside a scratch tree and logs the projection of
the real state after every command."""

from __future__ import annotations

import os
import shutil

from harness import xsession


def setup(wd):
    XSH = xsession.load()
    root = os.path.realpath(os.path.join(wd, "tree"))
    return {"XSH": XSH, "root": root}


def _mk_tree(root):
    shutil.rmtree(root, ignore_errors=True)
    os.makedirs(os.path.join(root, "r", "a", "c"))
    os.makedirs(os.path.join(root, "r", "b"))
    os.symlink("a", os.path.join(root, "r", "l"))
    os.symlink("a/c", os.path.join(root, "r", "k"))
    with open(os.path.join(root, "r", "f"), "w") as fh:
        fh.write("x")


def _to_model(root, p):
    if p is None or p == ".":
        return ["."]
    if p == root:
        return []
    if p.startswith(root + "/"):
        return p[len(root) + 1 :].split("/")
    return ["<outside>", p]


def _path(root, comps):
    return os.path.join(root, *comps) if comps else root


def _argv(root, step):
    cmd, a, flag = step["cmd"], step["arg"], step["flag"]
    kind = a["kind"]
    if kind == "abs":
        s = [_path(root, a["path"])]
    elif kind == "rel":
        s = ["/".join(a["path"])]
    elif kind == "plus":
        s = [f"+{a['n']}"]
    elif kind == "minus":
        s = [f"-{a['n']}"]
    elif kind == "dash":
        s = ["-"]
    elif kind == "junk":
        s = ["-x"] if cmd == "cd" else ["%zz"]
    elif kind == "two":
        s = ["a", "b"]
    else:
        s = []
    if cmd == "cd":
        return ["cd"] + (["-P"] if flag else []) + s
    if cmd == "pushd":
        return ["pushd", "-q"] + (["-n"] if flag else []) + s
    if cmd == "popd":
        return ["popd", "-q"] + (["-n"] if flag else []) + s
    if cmd == "dirs":
        if kind == "clear":
            return ["dirs", "-c"]
        return ["dirs", "-p", "-l"] + s
    raise ValueError(cmd)


class _FakeShell:
    """Just enough of BaseShell for _fix_cwd."""

    def print_color(self, *a, **k):
        pass


def run(ctx, scn):
    import xonsh.dirstack as ds
    from xonsh.shells.base_shell import BaseShell

    XSH, root = ctx["XSH"], ctx["root"]
    env = XSH.env
    _mk_tree(root)
    home = os.path.join(root, "r")
    os.chdir(home)
    ds.DIRSTACK.clear()
    env["HOME"] = home
    env["PWD"] = home
    if "OLDPWD" in env:
        del env["OLDPWD"]
    conf = scn["conf"]

    def apply_conf(c):
        env["AUTO_PUSHD"] = bool(c["autoPushd"])
        env["PUSHD_MINUS"] = bool(c["pushdMinus"])
        env["DIRSTACK_SIZE"] = int(c["size"])
        env["CDPATH"] = [_path(root, p) for p in c["cdpath"]]

    apply_conf(conf)
    env["PUSHD_SILENT"] = False
    steps = []
    todo = []
    for st in scn["steps"]:
        todo.append(st)
        if st["cmd"] in ("cd", "pushd", "popd", "dirs") and scn.get("fixcwd", True):
            # an interactive shell resynchronises after every command (BaseShell._fix_cwd)
            todo.append({"cmd": "fixcwd", "arg": {"kind": "none", "path": [], "n": 0}, "flag": False})
    for st in todo:
        cmd = st["cmd"]
        rtn, out, err = 0, "", ""
        if cmd in ("cd", "pushd", "popd", "dirs"):
            argv = _argv(root, st)
            rtn, out, err = xsession.run_alias(argv)
        elif cmd == "rmdir":
            os.rmdir(_path(root, st["arg"]["path"]))
        elif cmd == "mkdir":
            os.mkdir(_path(root, st["arg"]["path"]))
        elif cmd == "fixcwd":
            BaseShell._fix_cwd(_FakeShell())
        elif cmd == "setconf":
            apply_conf(st["conf"])
        elif cmd == "extchdir":
            os.chdir(_path(root, st["arg"]["path"]))
            BaseShell._fix_cwd(_FakeShell())
        elif cmd == "withcd":
            g = {"__target": _path(root, st["arg"]["path"])}
            XSH.execer.exec("with p'dummy'.__class__(__target).cd():\n    pass\n", glbs=g, locs=g)
        else:
            raise ValueError(cmd)
        try:
            cwd = os.getcwd()
        except OSError:
            cwd = None
        obs = {
            "pcwd": _to_model(root, cwd),
            "pwd": _to_model(root, env.get("PWD")),
            "oldpwd": _to_model(root, env.get("OLDPWD", None)),
            "stack": [_to_model(root, p) for p in ds.DIRSTACK],
            "failed": bool(rtn != 0 or (err or "").strip()),
            "rtn": rtn,
            "out": [_to_model(root, p) for p in out.split("\n") if p] if cmd == "dirs" and rtn == 0 else [],
        }
        steps.append({"cmd": cmd, "arg": st["arg"], "flag": st["flag"], "conf": st.get("conf", conf), "obs": obs, "err": (err or "")[:200]})
    os.chdir(root)
    return {"conf": conf, "steps": steps}
