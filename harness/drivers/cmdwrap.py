"""Driver for C03.

(a) equivalence: a *shape* (segments of atom kinds, chain operators, statement position, layout) is
    rendered twice by the same renderer - bare, and with every segment wrapped in ![...] - and both
    texts go through the real Execer.  Equal transformed trees (locations dropped) mean equal
    behaviour; when the trees differ (or one is rejected) both sources are executed with recording
    callable aliases and the run logs / files / exception kinds are compared.
(b) termination: any string is parsed under the recovery-loop event point; the iteration events
    and the way the call ended are returned for validation against RecoveryTrace."""

from __future__ import annotations

import ast
import builtins
import os
import signal
import time

from harness import xsession

ATOM_TEXT = {
    "word": "w1",
    "flag": "-f",
    "lflag": "--color",
    "lflageq": "--k=v",
    "path": "./p/q.txt",
    "dots": "..",
    "eqword": "a=b",
    "dashword": "x-y.z",
    "num": "42",
    "sq": "'s q'",
    "dq": '"d q"',
    "sqesc": "'it\\'s #1'",
    "env": "$VV",
    "envbr": "${'VV'}",
    "pyeval": "@(pv)",
    "pylist": "@([pv, 'z'])",
    "capt": "$(ci x)",
    "uncapt": "@$(ci y)",
    "glob": "*.nomatch",
    "tilde": "~nouser/x",
    "ddash": "--",
    "dash": "-",
    "colon": "k:v",
    "comma": "a,b",
    "plus": "+x",
    "at": "user@host",
    "rout": "> o.txt",
    "rapp": ">> o.txt",
    "rerr": "2> e.txt",
    "rerr2": "e> e.txt",
    "rall": "a> o.txt",
    "rmerge": "2>&1",
    "rin": "< in.txt",
}
REDIR = {"rout", "rapp", "rerr", "rerr2", "rall", "rmerge", "rin"}


class Timeout(BaseException):
    pass


_EVENTS: list = []  # loop-head events of the parse in progress (cleared before every parse)


# the largest legitimate count seen on the pinned tree is 56 iterations / 0.5 s for one parse; the
# model bounds the count by a function of the number of input lines
ITER_CAP = 5000
WALL_CAP = 30


def setup(wd):
    XSH = xsession.load()
    state = {"log": [], "rc": {}}

    def mk(name):
        def alias(args, stdin=None, stdout=None, stderr=None):
            data = None
            if stdin is not None and state.get("piped", {}).get(name):
                try:
                    data = stdin.read()
                except Exception as e:  # noqa: BLE001
                    data = f"<{type(e).__name__}>"
            state["log"].append([name, list(args), data])
            print("O" + name, file=stdout)
            print("E" + name, file=stderr)
            return state["rc"].get(name, 0)

        return alias

    for n in ("c0", "c1", "c2", "c3", "cp", "ci"):
        XSH.aliases[n] = mk(n)
    XSH.env["VV"] = "vv val"
    XSH.env["XONSH_SUBPROC_RAISE_ERROR"] = False
    XSH.env["XONSH_SUBPROC_CMD_RAISE_ERROR"] = False
    XSH.env["RAISE_SUBPROC_ERROR"] = False
    events = _EVENTS

    def controller(name, fields):
        if name == "recovery.iter":
            events.append(dict(fields))
            if len(events) > ITER_CAP:
                raise Timeout(f"more than {ITER_CAP} recovery iterations")

    from xonsh.lib import verifhooks

    verifhooks.install(controller)

    def on_alarm(signum, frame):
        raise Timeout("wall clock")

    signal.signal(signal.SIGALRM, on_alarm)
    return {"XSH": XSH, "state": state, "wd": wd, "events": events, "hangs": 0}


# ---------------------------------------------------------------------------------------------
def seg_text(i, seg, explicit):
    atoms = [f"c{i}"] + [ATOM_TEXT[a] for a in seg["atoms"]]
    body = ""
    for j, a in enumerate(atoms):
        if j:
            body += " \\\n  " if seg.get("cont") == j else " "
        body += a
    if seg.get("haspipe"):
        body += " | cp " + " ".join(ATOM_TEXT[a] for a in seg["pipe"])
        body = body.rstrip()
    if seg.get("amp"):
        body += " &"
    return f"![{body}]" if explicit else body


OPS = {"and": " and ", "or": " or ", "&&": " && ", "||": " || "}

BLOCKS = {
    "if": ("if True:", None),
    "else": ("if False:\n{I}    pass\n{I}else:", None),
    "for": ("for _i in (1,):", None),
    "while": ("while True:", "break"),
    "with": ("with _cm():", None),
    "def": ("def _f{D}():", "CALL"),
    "try": ("try:", "FINALLY"),
    "except": ("try:\n{I}    raise ValueError\n{I}except ValueError:", None),
    "class": ("class _K{D}:", None),
}


def render(shape, explicit):
    line = seg_text(0, shape["segs"][0], explicit)
    for i, (op, seg) in enumerate(zip(shape["ops"], shape["segs"][1:]), 1):
        line += OPS[op] + seg_text(i, seg, explicit)
    pos = shape.get("pos", {})
    if pos.get("semi") == "before":
        line = "_s = 1; " + line
    elif pos.get("semi") == "after":
        line = line + "; _s = 2"
    elif pos.get("semi") == "both":
        line = "_s = 1; " + line + "; _s = 2"
    if pos.get("comment"):
        line += "  # note: ls -l && x"
    unit = pos.get("indent", "    ")
    out = []
    for p in pos.get("before", []):
        out.append(PRE[p])
    depth = 0
    closers = []
    for kind in pos.get("blocks", []):
        head, tail = BLOCKS[kind]
        ind = unit * depth
        out.append(ind + head.replace("{I}", ind).replace("{D}", str(depth)))
        closers.append((kind, depth, tail))
        depth += 1
    ind = unit * depth
    if pos.get("stmt_before"):
        out.append(ind + "_q = 0")
    out.append("\n".join(ind + ln if k == 0 else ln for k, ln in enumerate(line.split("\n"))))
    if pos.get("stmt_after"):
        out.append(ind + "_r = 0")
    for kind, d, tail in reversed(closers):
        ind = unit * d
        if tail == "break":
            out.append(ind + unit + "break")
        elif tail == "CALL":
            out.append(ind + f"_f{d}()")
        elif tail == "FINALLY":
            out.append(ind + "finally:")
            out.append(ind + unit + "pass")
    for p in pos.get("after", []):
        out.append(PRE[p])
    return "\n".join(out) + "\n"


PRE = {
    "assign": "_a = 1",
    "triple": '_t = """one\ntwo ls -l\n"""',
    "paren": "_p = (1,\n      2)",
    "blank": "",
    "comment": "# just a comment && ls",
    "cmd": "ci pre",
    "def": "def _g():\n    return 1",
    "bsl": "_b = 1 + \\\n    2",
}


class _DropBoolopFlag(ast.NodeTransformer):
    def visit_Call(self, node):
        self.generic_visit(node)
        node.keywords = [k for k in node.keywords if k.arg != "in_boolop"]
        return node


def norm_tree(tree):
    """(strict dump, dump without the in_boolop keywords of the subprocess helper calls)"""
    import copy

    strict = ast.dump(tree, include_attributes=False)
    loose = ast.dump(_DropBoolopFlag().visit(copy.deepcopy(tree)), include_attributes=False)
    return strict, loose


def parse_one(XSH, src, ns, mode="exec"):
    ex = XSH.execer
    del _EVENTS[:]
    try:
        tree = ex.parse(src, ctx=set(ns) | set(dir(builtins)), mode=mode, filename="<verif-c03>")
        return (norm_tree(tree) if tree is not None else ("None", "None")), ""
    except SyntaxError:
        return None, "SyntaxError"
    except RecursionError:
        return None, "RecursionError"
    except Exception as e:  # noqa: BLE001
        return None, type(e).__name__


def py_parsable(text):
    """CPython's own verdict on whether a segment's text is also a Python expression (those are
    the segments the context-aware phase, not the recovery loop, turns into commands)."""
    try:
        ast.parse(text.replace("\\\n", " "), mode="eval")
        return True
    except (SyntaxError, ValueError):
        return False


def fresh_ns():
    import contextlib

    @contextlib.contextmanager
    def _cm():
        yield

    return {"pv": "p v*", "_cm": _cm}


def execute(ctx, src, shape, mode="exec"):
    XSH, state, wd = ctx["XSH"], ctx["state"], ctx["wd"]
    for f in os.listdir(wd):
        p = os.path.join(wd, f)
        if os.path.isfile(p):
            os.remove(p)
    with open(os.path.join(wd, "in.txt"), "w") as fh:
        fh.write("IN\n")
    with open(os.path.join(wd, "o.txt"), "w") as fh:
        fh.write("OLD\n")
    state["log"].clear()
    state["rc"] = {f"c{i}": s.get("rc", 0) for i, s in enumerate(shape["segs"])}
    state["piped"] = {"cp": True}
    ns = fresh_ns()
    exc = ""
    del _EVENTS[:]
    signal.setitimer(signal.ITIMER_REAL, 60)
    try:
        XSH.execer.exec(src, mode=mode, glbs=ns, locs=ns, filename="<verif-c03>")
    except Timeout:
        exc = "TIMEOUT"
    except SyntaxError:
        exc = "SyntaxError"
    except SystemExit as e:
        exc = f"SystemExit({e.code})"
    except BaseException as e:  # noqa: BLE001
        exc = type(e).__name__
    finally:
        signal.setitimer(signal.ITIMER_REAL, 0)
    # background aliases: give them a moment, then drop the jobs
    if any(s.get("amp") for s in shape["segs"]):
        deadline = time.time() + 5
        want = sum(1 for _ in shape["segs"])
        while time.time() < deadline and len(state["log"]) < want:
            time.sleep(0.01)
        time.sleep(0.05)
        try:
            from xonsh.procs import jobs as xj

            xj.get_tasks().clear()
            xj.get_jobs().clear()
        except Exception:  # noqa: BLE001
            pass
    files = {}
    for f in sorted(os.listdir(wd)):
        p = os.path.join(wd, f)
        if os.path.isfile(p):
            files[f] = open(p, errors="replace").read()
    log = [list(x) for x in state["log"]]
    if any(s.get("amp") for s in shape["segs"]):
        log = sorted(log, key=repr)
    return {"exc": exc, "log": log, "files": files, "vars": {k: ns.get(k) for k in ("_s", "_q", "_r") if k in ns}}


def run_equiv(ctx, scn):
    XSH = ctx["XSH"]
    shape = scn["shape"]
    bare, expl = render(shape, False), render(shape, True)
    mode = scn.get("mode", "exec")  # "single" is how the interactive prompt compiles a line
    ns = fresh_ns()
    tb, eb = parse_one(XSH, bare, ns, mode)
    te, ee = parse_one(XSH, expl, ns, mode)
    obs = {"bare_err": eb, "expl_err": ee, "flagsame": True}
    if eb and ee:
        # neither text is a program (both rejected the same way): nothing to compare
        obs["verdict"] = "same-error" if eb == ee else "differs"
    elif tb is not None and te is not None and tb[1] == te[1]:
        obs["verdict"] = "same-tree"
        # the only difference, if any: which operands of the chain carry the in_boolop marker
        obs["flagsame"] = tb[0] == te[0]
    else:
        rb = execute(ctx, bare, shape, mode)
        re_ = execute(ctx, expl, shape, mode)
        obs["verdict"] = "same-run" if rb == re_ else "differs"
        if rb != re_:
            obs["bare_run"], obs["expl_run"] = rb, re_
    obs["same"] = obs["verdict"] != "differs"
    return {"shape": shape, "mode": mode, "bare": bare, "explicit": expl, "steps": [{"cmd": "judge", "obs": obs}]}


def run_term(ctx, scn):
    """Parse an arbitrary string; record the recovery-loop iterations and how the call ended."""
    XSH, events = ctx["XSH"], ctx["events"]
    src = scn["text"]
    if ctx["hangs"] >= 3:
        # the verdict is settled (three hangs in this worker): do not spend minutes on the rest
        return {"text": src, "mode": scn.get("mode", "exec"), "nevents": 0, "wall": 0, "detail": "skipped after three hangs", "steps": [], "skipped": True}
    del events[:]
    end, detail = "tree", ""
    t0 = time.time()
    signal.setitimer(signal.ITIMER_REAL, scn.get("limit", WALL_CAP))
    try:
        XSH.execer.parse(src, ctx=set(), mode=scn.get("mode", "exec"), filename="<verif-c03>")
    except Timeout as e:
        end, detail = "hang", str(e)
        ctx["hangs"] += 1
    except SyntaxError as e:
        end, detail = "syntaxerror", str(e)[:80]
    except BaseException as e:  # noqa: BLE001
        end, detail = "internal", f"{type(e).__name__}: {e}"[:160]
    finally:
        signal.setitimer(signal.ITIMER_REAL, 0)
    wall = time.time() - t0
    evs = [
        {"retries": int(e["retries"]), "greedy": bool(e["greedy"]), "logical": bool(e["logical"]), "eline": int(e["err_line"]), "ecol": int(e["err_col"]), "nlines": int(e["nlines"]), "length": int(e.get("length", 0))}
        for e in events[:400]
    ]
    steps = [dict(cmd="iter", **e) for e in evs] + [{"cmd": "end", "how": end}]
    return {"text": src, "mode": scn.get("mode", "exec"), "nevents": len(events), "wall": round(wall, 3), "detail": detail, "steps": steps}


def run(ctx, scn):
    if "text" in scn:
        return run_term(ctx, scn)
    return run_equiv(ctx, scn)
