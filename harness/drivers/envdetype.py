"""Driver for C10: executes EnvDetype scenarios on the real session environment; every Launch
starts a real child (`env -0`) through the real subprocess machinery and feeds the child's
mapping back into a fresh Env (the nested-xonsh round trip)."""

from __future__ import annotations

from harness import xsession

VARS = {"S": "MULTILINE_PROMPT", "B": "VI_MODE", "P": "CDPATH", "U": "VERIF_UNTYPED", "R": "XONSH_SUBPROC_CMD_RAISE_ERROR", "Q": "VERIFQPATH"}
MIRROR = "RAISE_SUBPROC_ERROR"
EQUAL_BUT_DIFFERENT = [1, True, 1.0]  # compare equal, stringify differently
UNSET = 9


def setup(wd):
    XSH = xsession.load()
    return {"XSH": XSH}


def _value(k, v):
    if k == "S":
        return f"s{v}"
    if k in ("B", "R"):
        return bool(v)
    if k == "U":
        return EQUAL_BUT_DIFFERENT[v]
    if k == "Q":
        return f"~/q{v}"
    return ["/p0"] + [f"/a{i}" for i in range(1, v + 1)]


def _decode(k, s):
    if s is None:
        return UNSET
    if k == "S":
        return int(s[1:]) if s.startswith("s") and s[1:].isdigit() else -1
    if k in ("B", "R"):
        return {"1": 1, "": 0}.get(s, -1)
    if k == "U":
        return {"1": 0, "True": 1, "1.0": 2}.get(s, -1)
    if k == "Q":
        import os

        home = os.path.expanduser("~")
        if s.startswith("~/q") and s[3:].isdigit():
            return 10 + int(s[3:])  # verbatim: stored as a plain string
        if s.startswith(home + "/q") and s[len(home) + 2 :].isdigit():
            return int(s[len(home) + 2 :])  # expanded: converted as a path list
        return -1
    parts = s.split(":")
    if parts[0] != "/p0" or any(p != f"/a{i}" for i, p in enumerate(parts[1:], 1)):
        return -1
    return len(parts) - 1


def _launch(XSH, prefix=""):
    g = {}
    XSH.execer.exec(f"__verif_out = $({prefix}/usr/bin/env -0)\n", glbs=g, locs=g)
    out = g["__verif_out"]
    env = {}
    for item in out.split("\0"):
        if "=" in item:
            a, b = item.split("=", 1)
            env[a] = b
    return env


def run(ctx, scn):
    from xonsh.environ import DELETE_VAR, Env

    XSH = ctx["XSH"]
    if scn.get("sweep"):
        return {"steps": [], "sweep": sweep(XSH)}
    env = XSH.env
    for k, name in VARS.items():
        if name in env._d:
            del env[name]
    if MIRROR in env._d:
        del env[MIRROR]
    env["CDPATH"] = _value("P", 0)
    rule = env["XONSH_ENV_PATTERN_PATH"]
    while VARS["Q"] in rule.exclude:
        rule.exclude.remove(VARS["Q"])
    held = None
    steps = []
    for st in scn["steps"]:
        cmd, k, v = st["cmd"], st.get("k", ""), st.get("v", 0)
        obs = {}
        if cmd == "set":
            env[VARS[k]] = _value(k, v)
        elif cmd == "del":
            del env[VARS[k]]
        elif cmd == "readref":
            held = env["CDPATH"]
        elif cmd == "mutenv":
            env["CDPATH"].append(f"/a{len(env['CDPATH'])}")
        elif cmd == "mutheld":
            held.append(f"/a{len(held)}")
        elif cmd == "togglerule":
            if VARS["Q"] in rule.exclude:
                rule.exclude.remove(VARS["Q"])
            else:
                rule.exclude.append(VARS["Q"])
        elif cmd == "launch":
            from xonsh.procs.specs import SubprocSpec

            # (1) the mapping SubprocSpec hands to Popen for a command started now
            overlay = None
            if k:
                overlay = {VARS[k]: DELETE_VAR if v == UNSET else _value(k, v)}
            spec = SubprocSpec(cmd=["true"], env=overlay)
            kw = {}
            spec.prep_env_subproc(kw)
            obs["map"] = {kk: _decode(kk, kw["env"].get(name)) for kk, name in VARS.items()}
            # (2) a real child through the whole command path (not at every launch: running a
            # whole command reads mutable values and thereby drops the cached mapping)
            real = bool(st.get("real", True))
            obs["real"] = real
            if not real:
                child = {name: kw["env"].get(name) for name in list(VARS.values()) + [MIRROR] if name in kw["env"]}
            elif k and v == UNSET:
                with env.swap({VARS[k]: DELETE_VAR}):
                    child = _launch(XSH)
            elif k:
                lit = repr(_value(k, v)) if k == "S" else ("True" if v else "False")  # S, B, R
                child = _launch(XSH, prefix=f"${VARS[k]}={lit} ")
            else:
                child = _launch(XSH)
            obs["child"] = {kk: _decode(kk, child.get(name)) for kk, name in VARS.items()}
            obs["mirror"] = _decode("R", child.get(MIRROR))
            # the nested xonsh: same typed values for the variables the child received
            nested = Env(child)
            back = True
            for kk, name in VARS.items():
                if name in child:
                    # (read the raw store: reading a mutable value through the env would drop the cache)
                    expect = _value(kk, v) if (kk == k and v != UNSET) else env._d[name]
                    got = nested[name]
                    if kk in ("P",) or hasattr(got, "paths") or hasattr(expect, "paths"):
                        got, expect = list(got), list(expect)
                    if kk in ("U", "Q"):
                        continue  # untyped / rule-typed names: a nested shell re-types them by its own rules
                    if got != expect:
                        back = False
            obs["back"] = back
        else:
            raise ValueError(cmd)
        steps.append({"cmd": cmd, "k": k, "v": v, "obs": obs})
    return {"steps": steps}


# --------------------------------------------------------------------------------------------
# round-trip clause: for every registered variable (and name pattern) and every pool value of its
# type, convert(detype(v)) == v
POOL = {
    "str": ["", "a", "a b", "ü€𝄞", "x:y", "with\nnewline", " lead", "1", "True", "~"],
    "bool": [True, False],
    "int": [0, 1, -1, 65536],
    "float": [0.0, 1.5, -2.25],
    "path": ["/a", "rel/p", "/with space/x"],
    "env_path": [[], ["/a"], ["/a", "/b c"], ["rel", "/x"]],
    "csv_set": [set(), {"a"}, {"a", "b"}],
}


def sweep(XSH):
    import warnings

    warnings.simplefilter("ignore")
    from xonsh import tools as xt
    from xonsh.environ import Env

    env = XSH.env
    out = {"pairs": 0, "failures": [], "by_kind": {}}

    def candidates(name, default):
        v = env._vars.get(name)
        vals = []
        if isinstance(default, bool):
            vals += POOL["bool"]
        elif isinstance(default, int):
            vals += POOL["int"]
        elif isinstance(default, float):
            vals += POOL["float"]
        elif isinstance(default, str):
            vals += POOL["str"]
        if not callable(default) and default is not None:
            vals.append(default)
        return vals

    for name, var in sorted(env._vars.items(), key=lambda kv: str(kv[0])):
        if not isinstance(name, str):
            continue
        validate, convert, detype = var.validate, var.convert, var.detype
        if convert is None or detype is None:
            continue
        try:
            default = env.get_default(name) if var.default is not None else None
        except Exception:  # noqa: BLE001
            default = None
        if callable(default):
            try:
                default = default(env)
            except Exception:  # noqa: BLE001
                default = None
        vals = candidates(name, default)
        if name.endswith("PATH") or isinstance(default, xt.EnvPath if hasattr(xt, "EnvPath") else ()):
            vals = list(POOL["env_path"])
        kind = type(default).__name__
        for v in vals:
            try:
                if validate is not None and not validate(v):
                    v = convert(v)
            except Exception:  # noqa: BLE001 - not a valid value for this variable
                continue
            try:
                s = detype(v)
                if s is None:
                    continue  # untranslatable: must be omitted, not garbled
                back = convert(s)
                same = _same(v, back)
                if not same and not isinstance(v, (str, bool, int, float, list, tuple, set, dict)) and not hasattr(v, "paths"):
                    same = detype(back) == s  # opaque objects: the string form must be a fixpoint
            except Exception as e:  # noqa: BLE001
                same, back, s = False, f"{type(e).__name__}: {e}", None
            out["pairs"] += 1
            out["by_kind"][kind] = out["by_kind"].get(kind, 0) + 1
            if not same:
                out["failures"].append({"var": name, "value": repr(v), "string": repr(s), "back": repr(back),
                                        "signature": "roundtrip:" + getattr(detype, "__name__", "?")})
    return out


def _same(a, b):
    try:
        if hasattr(a, "paths") or hasattr(b, "paths"):
            return list(a) == list(b)
        if isinstance(a, (list, tuple)) and isinstance(b, (list, tuple)):
            return list(a) == list(b)
        return a == b and type(a) is type(b) or (a == b and isinstance(a, (int, float)) and isinstance(b, (int, float)))
    except Exception:  # noqa: BLE001
        return False
