"""Driver for C08: replays PathLookup histories on a scratch tree with explicitly set directory
mtimes; compares xonsh's lookups with shutil.which and /bin/sh `command -v` on the same $PATH."""

from __future__ import annotations

import os
import shutil
import subprocess

from harness import xsession

NAME = "verifcmd"
BASE = 1_700_000_000


def setup(wd):
    XSH = xsession.load()
    XSH.env["SUGGEST_COMMANDS"] = False
    XSH.env["XONSH_COMMANDS_CACHE_READ_DIR_ONCE"] = []
    return {"XSH": XSH, "wd": wd, "n": 0}


def run(ctx, scn):
    from xonsh.commands_cache import CommandsCache
    from xonsh.procs.executables import locate_executable
    from xonsh.procs.specs import run_subproc

    XSH = ctx["XSH"]
    ctx["n"] += 1
    root = os.path.realpath(os.path.join(ctx["wd"], f"pl{ctx['n']}"))
    shutil.rmtree(root, ignore_errors=True)
    dirs = {d: os.path.join(root, d) for d in ("D1", "D2", "CW")}
    for p in dirs.values():
        os.makedirs(p)
    os.symlink("D1", os.path.join(root, "L"))
    entry = {"D1": dirs["D1"], "D2": dirs["D2"], "L": os.path.join(root, "L"), "M": os.path.join(root, "M"), "E": ""}
    counter = {d: 0 for d in dirs}
    for d, p in dirs.items():
        os.utime(p, (BASE, BASE))
    oldcwd = os.getcwd()
    os.chdir(dirs["CW"])
    env = XSH.env
    saved_path = list(env["PATH"])

    def set_path(p):
        env["PATH"] = [entry[e] for e in p]

    def which_dir(p):
        if not p:
            return "none"
        rp = os.path.realpath(os.path.dirname(os.path.abspath(p)))
        for d, dp in dirs.items():
            if rp == dp:
                return d
        return "other:" + p

    set_path(scn["path"])
    cc = CommandsCache(env, XSH.aliases)
    steps = []
    try:
        for st in scn["steps"]:
            cmd, a, b = st["cmd"], st.get("a", ""), st.get("b", "")
            obs = {}
            if cmd == "create":
                f = os.path.join(dirs[a], NAME)
                if b == "dirn":
                    os.mkdir(f)
                else:
                    with open(f, "w") as fh:
                        fh.write(f"#!/bin/sh\necho {a}\n")
                    os.chmod(f, 0o755 if b == "exec" else 0o644)
                counter[a] += 1
                os.utime(dirs[a], (BASE + counter[a], BASE + counter[a]))
            elif cmd == "delete":
                f = os.path.join(dirs[a], NAME)
                if os.path.isdir(f):
                    os.rmdir(f)
                else:
                    os.remove(f)
                counter[a] += 1
                os.utime(dirs[a], (BASE + counter[a], BASE + counter[a]))
            elif cmd == "chmod":
                f = os.path.join(dirs[a], NAME)
                mode = os.stat(f).st_mode & 0o777
                m = os.stat(dirs[a]).st_mtime
                os.chmod(f, 0o644 if mode & 0o100 else 0o755)
                os.utime(dirs[a], (m, m))
            elif cmd == "setpath":
                set_path(st["path"])
            elif cmd == "relink":
                lp = os.path.join(root, "L")
                tgt = "D2" if os.readlink(lp) == "D1" else "D1"
                os.remove(lp)
                os.symlink(tgt, lp)
            elif cmd == "locate":
                pathstr = os.pathsep.join(env["PATH"])
                obs["loc"] = which_dir(locate_executable(NAME))
                obs["which"] = which_dir(shutil.which(NAME, path=pathstr))
                r = subprocess.run(["/bin/sh", "-c", f"command -v {NAME}"], env={"PATH": pathstr}, stdout=subprocess.PIPE, stderr=subprocess.DEVNULL, text=True, cwd=dirs["CW"])
                obs["sh"] = which_dir(r.stdout.strip()) if r.returncode == 0 and r.stdout.strip() else "none"
                if pathstr == "":
                    # a single empty entry renders as the empty string, which shutil.which treats as
                    # "no PATH given": that oracle does not apply
                    obs["which"] = obs["sh"]
                try:
                    out = run_subproc([[NAME]], captured="stdout")
                    obs["spawn"] = (out or "").strip() or "none"
                except Exception as e:  # noqa: BLE001 - command not found
                    obs["spawn"] = "none"
                    obs["spawn_err"] = f"{type(e).__name__}"
            elif cmd == "query":
                obs["cached"] = which_dir(cc.locate_binary(NAME))
                obs["inn"] = NAME in cc
                obs["listing"] = NAME in set(cc)
            else:
                raise ValueError(cmd)
            steps.append({"cmd": cmd, "a": a, "b": b, "path": st.get("path", []), "obs": obs})
    finally:
        os.chdir(oldcwd)
        env["PATH"] = saved_path
        shutil.rmtree(root, ignore_errors=True)
    return {"path": scn["path"], "steps": steps}
