"""Driver for C07: renders a redirect configuration (operator spellings, stage kind, pipeline
position, capture form) to a real command line, runs it, and finds where the tagged output of each
stream ended up: target files (truncated or appended), the next stage's stdin, the capture, the
shell's own stdout/stderr."""

from __future__ import annotations

import os
import re
import shutil
import sys

from harness import xsession

SPELL = {
    ("out", "w"): [">", "o>", "out>", "1>"],
    ("out", "a"): [">>", "o>>", "out>>", "1>>"],
    ("err", "w"): ["e>", "err>", "2>"],
    ("err", "a"): ["e>>", "err>>", "2>>"],
    ("all", "w"): ["a>", "all>", "&>"],
    ("all", "a"): ["a>>", "all>>", "&>>"],
    ("e2o", "w"): ["e>o", "err>out", "2>&1", "e>&1", "2>o", "err>&1", "2>out", "e>out", "err>o", "e>1", "2>1", "err>1"],
    ("o2e", "w"): ["o>e", "out>err", "1>&2", "o>&2", "1>e", "out>&2", "1>err", "o>err", "out>e", "o>2", "1>2", "out>2"],
    ("e2p", "w"): ["e>p", "err>p", "2>p"],
    ("a2p", "w"): ["a>p", "all>p"],
    ("in", "w"): ["<"],
}


def setup(wd):
    XSH = xsession.load()
    from xonsh.tools import unthreadable

    def body(args, stdin, stdout, stderr):
        stdout.write("O1")
        stderr.write(f"N{len(args)}")
        stderr.write("E1")
        if stdin is not None:
            try:
                data = stdin.read()
                stdout.write(data if isinstance(data, str) else data.decode())
            except Exception:  # noqa: BLE001
                pass
        return 0

    def va(args, stdin=None, stdout=None, stderr=None):
        return body(args, stdin, stdout, stderr)

    @unthreadable
    def vu(args, stdin=None, stdout=None, stderr=None):
        return body(args, stdin, stdout, stderr)

    XSH.aliases["va"] = va
    XSH.aliases["vu"] = vu
    return {"XSH": XSH, "wd": wd, "n": 0}


def _where(tag, places):
    """places: dict name -> text; returns the single place that holds `tag`."""
    found = []
    for name, text in places.items():
        body = text
        m = re.search(r"P\[(.*?)\]", text, re.S)
        if name in ("cap", "term1", "term2") and m:
            if tag in m.group(1):
                found.append("pipe")
            body = text.replace(m.group(0), "")
        if tag in body:
            if name in ("f1", "f2"):
                found.append(f"{name}:{'a' if body.startswith('X') else 'w'}")
            else:
                found.append(name)
    if not found:
        return "lost"
    if len(set(found)) > 1:
        return "multi:" + "+".join(sorted(set(found)))
    return found[0]


def run(ctx, scn):
    XSH = ctx["XSH"]
    cfg = scn["cfg"]
    ctx["n"] += 1
    base = os.path.join(ctx["wd"], f"rd{ctx['n']}")
    shutil.rmtree(base, ignore_errors=True)
    os.makedirs(base)
    files = {"f1": os.path.join(base, "f1"), "f2": os.path.join(base, "f2"), "fin": os.path.join(base, "fin")}
    for f in ("f1", "f2"):
        with open(files[f], "w") as fh:
            fh.write("X")
    # an input file that is also a legal write target keeps the model simple: `<` reads f1/f2 content
    ops_txt = []
    for i, o in enumerate(cfg["ops"]):
        sp = SPELL[(o["cls"], o["mode"] if o["cls"] in ("out", "err", "all") else "w")]
        s = sp[scn.get("spell", [0] * 8)[i] % len(sp)]
        if o["cls"] in ("out", "err", "all", "in"):
            ops_txt.append(f"{s} {files[o['file']]}")
        else:
            ops_txt.append(s)
    # every stage also reports how many arguments it received (a redirect operator must never turn
    # into an argument): "N<count>" on stderr
    stage = {"proc": "sh -c 'printf O1; printf E1 >&2; printf N$# >&2; cat' sh", "talias": "va", "ualias": "vu"}[cfg["kind"]]
    line = stage + (" " + " ".join(ops_txt) if ops_txt else "")
    if cfg["piped"]:
        if scn.get("mid"):
            # a three-stage pipeline: what the first stage sends into the pipe must travel through the
            # middle stage to the last one
            line += " | sh -c 'printf \"M[\"; cat; printf \"]\"'"
        line += " | sh -c 'printf \"P[\"; cat; printf \"]\"'"
    src = f"__r = $({line})\n" if cfg["captured"] else f"![{line}]\n"
    t1, t2 = os.path.join(base, "term1"), os.path.join(base, "term2")
    save1, save2 = os.dup(1), os.dup(2)
    so, se = sys.stdout, sys.stderr
    fd1 = os.open(t1, os.O_WRONLY | os.O_CREAT | os.O_APPEND)
    fd2 = os.open(t2, os.O_WRONLY | os.O_CREAT | os.O_APPEND)
    error = ""
    g = {}
    try:
        sys.stdout.flush()
        sys.stderr.flush()
        os.dup2(fd1, 1)
        os.dup2(fd2, 2)
        sys.stdout = open(1, "w", closefd=False)
        sys.stderr = open(2, "w", closefd=False)
        try:
            XSH.execer.exec(src, glbs=g, locs=g, filename="<verif-redirect>")
        except Exception as e:  # noqa: BLE001
            error = f"{type(e).__name__}: {e}"[:200]
        try:
            lc = XSH.lastcmd
            if lc is not None and hasattr(lc, "end"):
                lc.end()
        except Exception:  # noqa: BLE001
            pass
        sys.stdout.flush()
        sys.stderr.flush()
    finally:
        os.dup2(save1, 1)
        os.dup2(save2, 2)
        sys.stdout, sys.stderr = so, se
        for fd in (save1, save2, fd1, fd2):
            os.close(fd)
    places = {"cap": g.get("__r") or "", "term1": open(t1, errors="replace").read(), "term2": open(t2, errors="replace").read(),
              "f1": open(files["f1"], errors="replace").read() if os.path.exists(files["f1"]) else "", "f2": open(files["f2"], errors="replace").read() if os.path.exists(files["f2"]) else ""}
    if error and ("XonshError" in error or "SyntaxError" in error):
        obs = {"out": "error", "err": "error", "error": True, "msg": error, "extra_args": 0}
    elif error:
        obs = {"out": "exception", "err": "exception", "error": True, "msg": error, "extra_args": 0}
    else:
        # an input file's content ("X") travels with stdout; ignore the "X" prefix logic for a file that was read
        obs = {"out": _where("O1", places), "err": _where("E1", places), "error": False, "msg": ""}
        m = re.search(r"N(\d+)", "".join(places.values()))
        obs["extra_args"] = int(m.group(1)) if m else -1
    obs["line"] = src.strip().replace(base + "/", "")
    shutil.rmtree(base, ignore_errors=True)
    return {"cfg": cfg, "steps": [{"cmd": "run", "cfg": cfg, "obs": obs}]}
