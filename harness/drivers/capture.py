"""Driver for C06: run one captured pipeline for real - writer child / alias stages, a payload with
known bytes, a write chunking and exit timing - while the schedule points of the capture path
(guard XONSH_XONSH_VERIF=1) delay chosen threads, and compare everything the caller receives with
what the final stage was told to write.  The events seen at the schedule points (per-stream byte
counters) are returned for validation against CaptureTrace."""

from __future__ import annotations

import itertools
import os
import re
import signal
import sys
import threading
import time

from harness import xsession

WRITER = r'''
import os, sys, time
path, chunk, delay_ms, rc, err_noise, linger_ms = sys.argv[1], int(sys.argv[2]), int(sys.argv[3]), int(sys.argv[4]), int(sys.argv[5]), int(sys.argv[6])
data = open(path, "rb").read()
out = sys.stdout.buffer
i = 0
while i < len(data) or (i == 0 and not data):
    if not data:
        break
    out.write(data[i:i + chunk]); out.flush()
    if err_noise:
        sys.stderr.write("E%d\n" % i); sys.stderr.flush()
    i += chunk
    if delay_ms:
        time.sleep(delay_ms / 1000.0)
if linger_ms:
    time.sleep(linger_ms / 1000.0)
os._exit(rc)
'''


class Hang(BaseException):
    pass


def payload_bytes(kind, size):
    """Deterministic payloads whose content identifies position (so loss/duplication/reordering show)."""
    if size == 0:
        return b""
    if kind == "lines":
        out = bytearray()
        i = 0
        while len(out) < size:
            out += b"%07d:abcdefghij\n" % i
            i += 1
        return bytes(out[:size - 1] + b"\n") if size > 1 else b"\n"
    if kind == "nofinalnl":
        b = payload_bytes("lines", size + 1)
        return b[:size - 1] + b"Z" if size > 1 else b"Z"
    if kind == "oneline":
        return (b"%07d" % size) * (size // 7 + 1)
    if kind == "crlf":
        out = bytearray()
        i = 0
        while len(out) < size:
            out += b"%06d;abcdefgh\r\n" % i
            i += 1
        return bytes(out)
    if kind == "cr":
        # lone carriage returns inside and at the end of lines (progress-bar style output)
        out = bytearray()
        i = 0
        while len(out) < size:
            out += b"%06d;ab\rcd" % i + (b"\r" if i % 3 == 0 else b"\n")
            i += 1
        return bytes(out)
    if kind == "utf8":
        unit = "é中\U0001f41a".encode()  # 2-, 3- and 4-byte characters: straddle every boundary
        out = bytearray()
        i = 0
        while len(out) < size:
            out += b"%05d" % i + unit + b"\n"
            i += 1
        return bytes(out)
    if kind == "binary":
        return bytes((i * 7 + (i >> 8)) % 256 for i in range(size))
    if kind == "ansi":
        out = bytearray()
        i = 0
        while len(out) < size:
            out += b"\x1b[31m%06d\x1b[0m text\n" % i
            i += 1
        return bytes(out)
    raise ValueError(kind)


def setup(wd):
    XSH = xsession.load()
    state = {"events": [], "lock": threading.Lock(), "delays": {}, "seq": 0}

    def controller(name, fields):
        with state["lock"]:
            state["seq"] += 1
            ev = {"seq": state["seq"], "ev": name, "thread": threading.current_thread().name}
            for k, v in fields.items():
                ev[k] = v if isinstance(v, (int, bool, str)) else str(v)
            if len(state["events"]) < 20000:
                state["events"].append(ev)
        d = state["delays"].get(name)
        if d:
            time.sleep(d)

    from xonsh.lib import verifhooks

    verifhooks.install(controller)
    with open(os.path.join(wd, "writer.py"), "w") as fh:
        fh.write(WRITER)

    def mk_alias(kind):
        def alias(args, stdin=None, stdout=None, stderr=None):
            # args: payload path, chunk, delay_ms, rc
            data = open(args[0], "rb").read()
            chunk, delay, rc = int(args[1]), int(args[2]), int(args[3])
            if kind == "filter":
                src = stdin.buffer.read() if hasattr(stdin, "buffer") else stdin.read().encode()
                data = src
            i = 0
            buf = stdout.buffer if hasattr(stdout, "buffer") else None
            while i < len(data):
                piece = data[i:i + chunk]
                if buf is not None:
                    buf.write(piece)
                    buf.flush()
                else:
                    stdout.write(piece.decode("utf-8", "surrogateescape"))
                    stdout.flush()
                i += chunk
                if delay:
                    time.sleep(delay / 1000.0)
            return rc

        return alias

    XSH.aliases["walias"] = mk_alias("source")
    XSH.aliases["falias"] = mk_alias("filter")

    def nalias(args, stdin=None, stdout=None, stderr=None):
        """A callable alias that produces its output by running a command itself (a wrapper alias)."""
        ns = {}
        XSH.execer.exec(f"_q = ![{sys.executable} {wd}/writer.py {' '.join(args)} 0 0]\n", glbs=ns, locs=ns, filename="<verif-c06-nested>")
        return ns["_q"].rtn

    XSH.aliases["nalias"] = nalias
    XSH.env["XONSH_SUBPROC_RAISE_ERROR"] = False
    XSH.env["XONSH_SUBPROC_CMD_RAISE_ERROR"] = False

    def on_alarm(signum, frame):
        raise Hang("wall clock")

    signal.signal(signal.SIGALRM, on_alarm)
    return {"XSH": XSH, "wd": wd, "state": state}


RE_ESC = re.compile(r"(\001.*?\002|\x1b\[[0-9;?]*[A-Za-z]|\x1b\][^\x07]*\x07|\x1b[()][A-Za-z0-9])")


def expected_text(raw, enc_errors="surrogateescape"):
    """The documented text view: decode, CR and CRLF -> LF, terminal escape sequences removed."""
    s = raw.decode("utf-8", enc_errors)
    s = s.replace("\r\n", "\n").replace("\r", "\n")
    return RE_ESC.sub("", s)


def run_order(ctx, scn):
    """In which order does the real QueueReader.is_fully_read read its three flags?  A reader whose flags
    are instrumented is asked under every combination of truth values; the reads (until the short-circuit)
    and the answer are returned.  Capture.tla shows that the answer is only safe for the order
    closed -> pump thread stopped -> queue empty."""
    from xonsh.procs.readers import QueueReader

    log = []

    class Thread:
        def __init__(self, alive):
            self._alive = alive

        def is_alive(self):
            log.append("thread")
            return self._alive

    class Queue:
        def __init__(self, empty):
            self._empty = empty

        def empty(self):
            log.append("empty")
            return self._empty

        def qsize(self):
            log.append("empty")
            return 0 if self._empty else 1

    class Probe(QueueReader):
        def __init__(self, closed, stopped, empty):
            self.__dict__["_c"] = closed
            self.fd, self.timeout = -1, None
            self.thread = Thread(not stopped)
            self.queue = Queue(empty)

        @property
        def closed(self):
            log.append("closed")
            return self.__dict__["_c"]

        @closed.setter
        def closed(self, v):
            self.__dict__["_c"] = v

    closed, stopped, empty = scn["flags"]
    r = Probe(closed, stopped, empty)
    del log[:]
    try:
        ans = bool(r.is_fully_read())
        err = ""
    except Exception as e:  # noqa: BLE001
        ans, err = False, f"{type(e).__name__}: {e}"[:120]
    return {"scn": scn, "order": True, "steps": [{"ev": "fr.read", "flag": f} for f in log] + [{"ev": "fr.answer", "flag": "yes" if ans else "no"}], "err": err}


def run(ctx, scn):
    if "flags" in scn:
        return run_order(ctx, scn)
    XSH, wd, state = ctx["XSH"], ctx["wd"], ctx["state"]
    if ctx.get("hangs", 0) >= 2:
        # the verdict is settled (two hangs in this worker, and a hung capture may leave the session wedged)
        return {"scn": scn, "cmd": "", "wall": 0, "nevents": 0, "steps": [{"cmd": "capture", "obs": {"ok": True, "kind": "skipped", "problems": []}}], "events": [], "skipped": True}
    raw = payload_bytes(scn["payload"], scn["size"])
    ppath = os.path.join(wd, "payload.bin")
    with open(ppath, "wb") as fh:
        fh.write(raw)
    rc = scn.get("rc", 0)
    chunk, delay = scn.get("chunk", 65536), scn.get("delay_ms", 0)
    wargs = f"{ppath} {chunk} {delay} {rc}"
    stage = scn.get("stage", "proc")
    if stage == "proc":
        last = f"{sys.executable} {wd}/writer.py {wargs} {int(bool(scn.get('err_noise')))} {scn.get('linger_ms', 0)}"
    elif stage == "alias":
        last = f"walias {wargs}"
    elif stage == "proc|cat":
        last = f"{sys.executable} {wd}/writer.py {wargs} 0 0 | cat"
        rc = 0
    elif stage == "alias|cat":
        last = f"walias {wargs} | cat"
        rc = 0
    elif stage == "proc|falias":
        last = f"{sys.executable} {wd}/writer.py {wargs} 0 0 | falias {ppath} {chunk} 0 {rc}"
    elif stage == "nalias":
        last = f"nalias {wargs}"
    elif stage == "salias":
        # a string alias holding a chain (an ExecAlias): both commands' output belongs to the capture
        XSH.aliases["salias"] = f"{sys.executable} {wd}/writer.py {ppath} {chunk} 0 0 0 0 && {sys.executable} {wd}/writer.py {wargs} 0 0"
        last = "salias"
        raw = raw + raw
    elif stage == "proc|cat|cat":
        last = f"{sys.executable} {wd}/writer.py {wargs} 0 0 | cat | cat"
        rc = 0
    else:
        raise ValueError(stage)
    dec = {"thread": "@thread ", "unthread": "@unthread ", "default": ""}[scn.get("threading", "default")]
    if "|" in last and dec:
        head, _, tail = last.rpartition("| ")
        last = head + "| " + dec + tail
    else:
        last = dec + last
    form = scn.get("form", "dollar")
    src = {"dollar": f"_r = $({last})", "object": f"_p = !({last})\n_out = _p.out\n_raw = _p.raw_out\n_rtn = _p.rtn",
           "iter": f"_p = !({last})\n_it = [l for l in _p]\n_raw = _p.raw_out\n_rtn = _p.rtn", "inject": f"_r = @$({last})" if False else f"walias2 = 1\n_r = $({last})"}[form]
    if form == "inject":
        src = f"_r = $({last})"
    state["delays"] = dict(scn.get("delays", {}))
    with state["lock"]:
        del state["events"][:]
        state["seq"] = 0
    ns = {}
    obs = {"ok": True, "kind": "ok", "problems": []}
    # the terminal of the run: nothing of the capture may be echoed to fd 1
    echo_r, echo_w = os.pipe()
    saved1 = os.dup(1)
    os.dup2(echo_w, 1)
    t0 = time.time()
    signal.setitimer(signal.ITIMER_REAL, scn.get("limit", 30))
    # a capture that swallows the alarm (the wait is retried inside xonsh) must not hold the whole check:
    # a hard watchdog ends this worker; the parent reports the scenario as a capture that never returned
    watchdog = threading.Timer(scn.get("limit", 30) + 15, lambda: os._exit(97))
    watchdog.daemon = True
    watchdog.start()
    try:
        XSH.execer.exec(src + "\n", glbs=ns, locs=ns, filename="<verif-c06>")
    except Hang:
        obs.update(ok=False, kind="hang")
        ctx["hangs"] = ctx.get("hangs", 0) + 1
    except BaseException as e:  # noqa: BLE001
        obs.update(ok=False, kind="raised", detail=f"{type(e).__name__}: {e}"[:200])
    finally:
        signal.setitimer(signal.ITIMER_REAL, 0)
        watchdog.cancel()
        sys.stdout.flush()
        os.dup2(saved1, 1)
        os.close(saved1)
        os.close(echo_w)
    echoed = b""
    os.set_blocking(echo_r, False)
    try:
        while True:
            b = os.read(echo_r, 65536)
            if not b:
                break
            echoed += b
    except BlockingIOError:
        pass
    os.close(echo_r)
    wall = time.time() - t0
    state["delays"] = {}
    text = expected_text(raw)

    def problem(what, got, want):
        obs["ok"] = False
        obs["kind"] = "differs" if obs["kind"] == "ok" else obs["kind"]
        g = got if isinstance(got, (bytes, str)) else repr(got)
        i = next((k for k in range(min(len(g), len(want))) if g[k] != want[k]), min(len(g), len(want)))
        obs["problems"].append({"what": what, "got_len": len(g), "want_len": len(want), "first_diff_at": i, "got_near": repr(g[max(0, i - 20): i + 30]), "want_near": repr(want[max(0, i - 20): i + 30])})

    if obs["kind"] == "ok":
        # the formatted value ($() and .out): a one-line output loses its trailing newline
        want = text
        lines = text.splitlines(keepends=True)
        if len(lines) == 1:
            want = lines[0].rstrip("\n")
        textual = scn["payload"] != "binary"  # (a text view of arbitrary bytes is not specified)
        if form in ("dollar", "inject"):
            if ns.get("_r") != want:
                problem("$() value", ns.get("_r") or "", want)
        else:
            if ns.get("_raw") != raw:
                problem(".raw_out", ns.get("_raw") or b"", raw)
            if form == "object" and textual and ns.get("_out") != want:
                problem(".out", ns.get("_out") or "", want)
            if form == "iter" and textual and "".join(ns.get("_it") or []) != text:
                problem("iteration", "".join(ns.get("_it") or []), text)
            if ns.get("_rtn") != rc:
                obs["ok"] = False
                obs["kind"] = "differs"
                obs["problems"].append({"what": ".rtn", "got": ns.get("_rtn"), "want": rc})
        if echoed:
            obs["ok"] = False
            obs["kind"] = "differs"
            obs["problems"].append({"what": "echoed to the terminal", "got_len": len(echoed), "got_near": repr(echoed[:60])})
    with state["lock"]:
        events = list(state["events"])
    return {"scn": scn, "cmd": last, "wall": round(wall, 3), "nevents": len(events), "steps": [{"cmd": "capture", "obs": obs}], "events": events[:4000]}
