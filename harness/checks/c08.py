"""C08 - command lookup equals a POSIX $PATH search and never goes stale (spec PathLookup)."""

from __future__ import annotations

import json
import os
import random

from harness import core, findings, pool, tlc

PID = "C08"
SPEC = "PathLookup"


def S(cmd, a="", b="", path=None):
    return {"cmd": cmd, "a": a, "b": b, "path": path or []}


PINNED = [
    (["D1", "D2"], [S("create", "D2", "exec"), S("create", "CW", "exec"), S("locate"), S("query"), S("create", "D1", "exec"), S("query"), S("setpath", path=["D2", "L"]), S("locate"), S("query"),
                    S("chmod", "D2"), S("locate"), S("query"), S("setpath", path=["M", "E"]), S("locate"), S("query")]),
    (["L", "D2"], [S("create", "D1", "dirn"), S("create", "D2", "nonexec"), S("locate"), S("query"), S("chmod", "D2"), S("locate"), S("query"), S("setpath", path=["D2"]), S("query"), S("delete", "D2"), S("query"), S("locate")]),
    (["L"], [S("create", "D1", "exec"), S("locate"), S("query"), S("relink"), S("locate"), S("query"), S("create", "D2", "exec"), S("delete", "D1"), S("locate"), S("query"), S("relink"), S("locate"), S("query")]),
    (["E"], [S("create", "CW", "exec"), S("locate"), S("query"), S("setpath", path=["M"]), S("locate"), S("query")]),
]


def from_behaviours(behs):
    scns = []
    for b in behs:
        steps = []
        for s in b[1:]:
            a = s["act"]
            st = S(a["cmd"], a["a"], a["b"])
            if a["cmd"] == "setpath":
                st["path"] = s["path"]
            steps.append(st)
        # end every history with both kinds of lookup
        steps += [S("locate"), S("query")]
        scns.append({"path": b[0]["path"], "steps": steps})
    return scns


ENTRIES = ["D1", "D2", "L", "M", "E"]


def weighted_histories(n, rng, maxlen=3):
    """Histories biased towards lookup / change / lookup patterns (TLC's uniform simulation mostly
    edits $PATH); enabledness is tracked here, the verdict stays with the trace specification."""
    scns = []
    for _ in range(n):
        fs = {"D1": "absent", "D2": "absent", "CW": "absent"}
        path = [rng.choice(ENTRIES) for _ in range(rng.randint(1, maxlen))]
        path0 = list(path)
        steps = []
        for _ in range(rng.randint(6, 16)):
            r = rng.random()
            if r < 0.30:
                steps.append(S("query"))
            elif r < 0.42:
                steps.append(S("locate"))
            elif r < 0.62:
                d = rng.choice(list(fs))
                if fs[d] == "absent":
                    k = rng.choice(["exec", "exec", "nonexec", "dirn"])
                    fs[d] = k
                    steps.append(S("create", d, k))
                else:
                    fs[d] = "absent"
                    steps.append(S("delete", d))
            elif r < 0.66:
                steps.append(S("relink"))
            elif r < 0.78:
                cands = [d for d in fs if fs[d] in ("exec", "nonexec")]
                if cands:
                    d = rng.choice(cands)
                    fs[d] = "nonexec" if fs[d] == "exec" else "exec"
                    steps.append(S("chmod", d))
            else:
                new = list(path)
                op = rng.random()
                if op < 0.4 and len(new) > 1:
                    rng.shuffle(new)
                elif op < 0.6 and len(new) > 1:
                    new.pop(rng.randrange(len(new)))
                elif op < 0.8 and len(new) < maxlen:
                    new.insert(rng.randrange(len(new) + 1), rng.choice(ENTRIES))
                else:
                    new = [rng.choice(ENTRIES) for _ in range(rng.randint(1, maxlen))]
                if new != path:
                    path = new
                    steps.append(S("setpath", path=list(path)))
        steps += [S("locate"), S("query")]
        scns.append({"path": path0, "steps": steps})
    return scns


def describe(trace, matched):
    steps = trace["steps"]
    if matched >= len(steps):
        return "trace matched"
    st = steps[matched]
    return f"step {matched + 1} not allowed by PathLookup: PATH0={trace['path']} ops={[(s['cmd'], s['a'], s['b'], s['path']) if s['cmd'] == 'setpath' else (s['cmd'], s['a'], s['b']) for s in steps[: matched + 1]]} observed={json.dumps(st['obs'])}"


def run(tier, seed, replay=None):
    res = core.Result(PID, tier, seed)
    cfg_text = open(os.path.join(tlc.SPECS, "PathLookup.cfg")).read()
    big_cfg = cfg_text.replace("MaxPath = 2", "MaxPath = 3")
    mc = {}
    if replay:
        payload = json.load(open(replay))["payload"]
        scns = [{"path": payload["trace"]["path"], "steps": payload["trace"]["steps"]}]
    else:
        mc = tlc.model_check(SPEC, cfg_text=cfg_text if tier == "quick" else big_cfg, coverage=True, timeout=3000)
        if mc.get("never_taken"):
            raise tlc.TLCError(f"vacuity: actions never taken in {SPEC}: {mc['never_taken']}")
        selftest = {}
        for dev in ("Dev_PathEditUnnoticed", "Dev_ChmodUnnoticed"):
            r = tlc.model_check(SPEC, cfg_text=core.set_deviations(cfg_text, [dev]), expect_ok=False, coverage=False, timeout=900)
            selftest[dev] = r["errors"][:1]
        res.coverage["deviation_selftest"] = selftest
        behs, sim = tlc.simulate_behaviours(SPEC, big_cfg, depth=14 if tier == "quick" else 24, num=1500 if tier == "quick" else 30000, seed=seed + 1, timeout=1800)
        scns = from_behaviours(behs)
        scns += [{"path": p, "steps": st} for p, st in PINNED]
        scns += weighted_histories(1500 if tier == "quick" else 30000, random.Random(seed + 7))
    traces = pool.run("pathlookup", scns, hooks=False)
    bad_workers = [t for t in traces if "steps" not in t]
    if bad_workers:
        raise tlc.TLCError("driver failure: " + json.dumps(bad_workers[0])[:3000])
    stats = core.validate_with_findings(res, "PathLookupTrace", traces, big_cfg, describe=describe, timeout=3000)
    lookups = sum(1 for t in traces for s in t["steps"] if s["cmd"] in ("locate", "query"))
    cov = {
        "states": mc.get("distinct", 1),
        "transitions": mc.get("states", 1),
        "traces_validated_against_impl": stats["validated"],
        "samples": [[(s["cmd"], s["a"], s["b"], s["path"], s["obs"]) for s in t["steps"]][:10] for t in traces[:2]],
        "evaluations": lookups,
        "distinct_nontrivial": len({json.dumps([t["path"]] + [(s["cmd"], s["a"], s["b"], s["path"]) for s in t["steps"]]) for t in traces
                                    if any(s["cmd"] == "query" for s in t["steps"][:-2]) and any(s["cmd"] in ("create", "delete", "chmod", "setpath") for s in t["steps"])}),
        "rule": "scenario = TLC -simulate behaviour of PathLookup (create/delete/chmod of a command in D1/D2/cwd, $PATH edits over entries D1, D2, symlink, missing, empty; uncached lookups, cache queries) replayed on a scratch tree with explicit directory mtimes, each lookup compared with shutil.which, /bin/sh `command -v` and the file a real spawn executed; non-trivial = a cache query followed by a change and another lookup; distinct by initial $PATH + operation sequence",
        "trace_validation": stats,
        "mc_action_coverage": mc.get("coverage"),
        "exhaustive": False,
    }
    cov.update(res.coverage)
    core.write_evidence(res, "model_checking", cov, assumptions=[
        "one command name; directory mtimes set explicitly (a create/delete always advances it, chmod never does)",
        "$XONSH_COMMANDS_CACHE_READ_DIR_ONCE empty; no alias of the same name",
        "checks run as root: X_OK is true iff some execute bit is set",
    ])
    return core.finish(res)
