"""C02 - code whose names are all bound runs as Python, never as a command (spec Scope)."""

from __future__ import annotations

import json
import os
import random

from harness import core, findings, pool, tlc

PID = "C02"
SPEC = "Scope"
FORMS = ["assign", "ann", "import", "importdotted", "importfrom", "for", "with", "except", "walrus", "walrusif"]
SHAPES = ["sub", "pipe", "lt", "and", "bare"]
NAMES = ["a", "b"]


def from_behaviours(behs):
    scns = []
    for b in behs:
        steps = [{"cmd": s["act"]["cmd"], "form": s["act"]["form"], "x": s["act"]["x"], "y": s["act"]["y"]} for s in b[1:]]
        scns.append({"session": sorted(b[0]["session"]), "steps": steps})
    return scns


def weighted(n, rng):
    """Programs biased towards bind ... (block) ... expression patterns; enabledness tracked here."""
    scns = []
    for _ in range(n):
        session = [x for x in NAMES if rng.random() < 0.25]
        steps, depth, kinds = [], 0, []
        tops = [set()]
        globs = [set()]
        for _ in range(rng.randint(3, 9)):
            r = rng.random()
            if r < 0.34:
                steps.append({"cmd": "bind", "form": rng.choice(FORMS), "x": rng.choice(NAMES), "y": ""})
                tops[-1].add(steps[-1]["x"])
            elif r < 0.46 and depth < 2:
                steps.append({"cmd": "def", "form": "", "x": rng.choice(NAMES), "y": rng.choice(NAMES)})
                depth += 1
                kinds.append("function")
                tops.append({steps[-1]["y"]})
                globs.append(set())
            elif r < 0.52 and depth < 2:
                steps.append({"cmd": "class", "form": "", "x": rng.choice(NAMES), "y": ""})
                depth += 1
                kinds.append("class")
                tops.append(set())
                globs.append(set())
            elif r < 0.62 and depth > 0:
                steps.append({"cmd": "end", "form": "", "x": "", "y": ""})
                depth -= 1
                kinds.pop()
                tops.pop()
                globs.pop()
            elif r < 0.67 and kinds and kinds[-1] == "function":
                steps.append({"cmd": "global", "form": "", "x": rng.choice(NAMES), "y": ""})
                globs[-1].add(steps[-1]["x"])
            elif r < 0.74 and (tops[-1] - globs[-1]):
                x = rng.choice(sorted(tops[-1] - globs[-1]))
                tops[-1].discard(x)
                steps.append({"cmd": "del", "form": "", "x": x, "y": ""})
            else:
                steps.append({"cmd": "expr", "form": rng.choice(SHAPES), "x": rng.choice(NAMES), "y": rng.choice(NAMES)})
        steps.append({"cmd": "expr", "form": rng.choice(SHAPES), "x": "a", "y": "b"})
        scns.append({"session": session, "steps": steps})
    return scns


def describe(trace, matched):
    steps = trace["steps"]
    if matched >= len(steps):
        return "trace matched"
    st = steps[matched]
    return f"statement {matched + 1} ({st['cmd']} {st['form']} {st['x']} {st['y']}) not allowed by Scope: session={trace['session']} decision={st['obs'].get('decision')} (line {st['obs'].get('line')}) {trace.get('err', '')}\n--- source ---\n{trace['src']}"


def run(tier, seed, replay=None):
    res = core.Result(PID, tier, seed)
    rng = random.Random(seed)
    cfg_text = open(os.path.join(tlc.SPECS, "Scope.cfg")).read()
    big_cfg = cfg_text.replace("MaxStmts = 4", "MaxStmts = 12")
    mc = {}
    noexec = []
    if replay:
        payload = json.load(open(replay))["payload"]
        scns = [{"session": payload["trace"]["session"], "steps": [{k: s[k] for k in ("cmd", "form", "x", "y")} for s in payload["trace"]["steps"]]}]
    else:
        mc = tlc.model_check(SPEC, cfg_text=cfg_text if tier == "quick" else cfg_text.replace("MaxStmts = 4", "MaxStmts = 5"), coverage=True, timeout=3000)
        if mc.get("never_taken"):
            raise tlc.TLCError(f"vacuity: actions never taken in {SPEC}: {mc['never_taken']}")
        behs, _ = tlc.simulate_behaviours(SPEC, big_cfg, depth=9 if tier == "quick" else 12, num=1500 if tier == "quick" else 30000, seed=seed + 1, timeout=1800,
                                          fields=["act", "session"])
        scns = from_behaviours(behs) + weighted(2500 if tier == "quick" else 60000, rng)
        # decided before anything runs
        bads = ["def (:", "echo 'unterminated", "![ls", "a b c d e (", "if True:\npass", "x = (1,"]
        middles = ["", "ls -l\n", "a = 1\na -b\n", "def f():\n    return 1\n"]
        for k in (1, 3):
            for m in middles:
                for bad in bads:
                    noexec.append({"noexec": True, "k": k, "middle": m, "bad": bad})
    out = pool.run("scope", scns + noexec, hooks=False)
    bad_workers = [t for t in out if "steps" not in t]
    if bad_workers:
        raise tlc.TLCError("driver failure: " + json.dumps(bad_workers[0])[:3000])
    traces = [t for t in out if "noexec" not in t]
    stats = core.validate_with_findings(res, "ScopeTrace", traces, big_cfg, describe=describe, timeout=3000)
    for t in out:
        if "noexec" in t:
            o = t["noexec"]
            if o["ran"] != 0 or o["err"] != "SyntaxError":
                res.violation(f"input with a syntax error was partially executed or did not raise SyntaxError: ran {o['ran']} statement(s), error={o['err']!r}\n{o['src']}", o)
    decisions = sum(1 for t in traces for s in t["steps"] if s["cmd"] == "expr")
    cov = {
        "states": mc.get("distinct", 1),
        "transitions": mc.get("states", 1),
        "traces_validated_against_impl": stats["validated"],
        "samples": [{"session": t["session"], "src": t["src"], "decisions": [s["obs"].get("decision") for s in t["steps"] if s["cmd"] == "expr"]} for t in traces[-2:]],
        "evaluations": decisions + len(noexec),
        "decisions_checked": decisions,
        "syntax_error_inputs": len(noexec),
        "distinct_nontrivial": len({t["src"] + repr(t["session"]) for t in traces if any(s["cmd"] in ("def", "class", "del", "global") for s in t["steps"])}),
        "rule": "one case = source text built from binding statements (11 forms), def/class blocks up to depth 2, global, del and command-looking expression statements (`a -b`, `a | b`, `a < b`, `a and b`, `a`) over two names and every session context; the real three-phase parse decides each expression statement; non-trivial = contains a block, global or del; distinct by source + session",
        "trace_validation": stats,
        "mc_action_coverage": mc.get("coverage"),
        "exhaustive": False,
    }
    core.write_evidence(res, "model_checking", cov, assumptions=[
        "a name bound only in an enclosing class body may be decided either way (Python does not make it visible in nested functions)",
        "decisions are read from the transformed tree (a subprocess helper call on the statement's line)",
    ])
    return core.finish(res)
