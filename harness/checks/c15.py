"""C15 - alias expansion always terminates and preserves the user's arguments (spec Alias)."""

from __future__ import annotations

import itertools
import json
import os
import random

from harness import core, pool, tlc

PID = "C15"
SPEC = "Alias"
NAMES = ["a", "b", "c"]
DECS = ["@d1", "@d2"]


def bodies(dec_prefixes, seconds):
    out = []
    for dp in dec_prefixes:
        for first in ("a", "b", "c", "x"):
            out.append({"kind": "list", "toks": list(dp) + [first]})
            for second in seconds:
                out.append({"kind": "list", "toks": list(dp) + [first, second]})
    out.append({"kind": "fn", "toks": []})
    for n in NAMES:
        out.append({"kind": "rc", "toks": [n]})
        out.append({"kind": "rc", "toks": [n, "-r"]})
    out.append(None)  # undefined
    return out


FULL = bodies([(), ("@d1",), ("@d2",), ("@d1", "@d2"), ("@d2", "@d1"), ("@d1", "@d1")], ("a", "b", "c", "x", "-f"))
SMALL = bodies([(), ("@d1",)], ("a", "b", "x"))
# user arguments that would change under a second expansion or re-splitting
QUERIES = [[n] + u for n in NAMES for u in ([], ["~"], ["$VERIFVAR", "~/x y"])]


def table_scenario(tab, order, form="list", history=None):
    steps = []
    for n in order:
        if tab[n] is not None:
            steps.append({"cmd": "define", "name": n, "body": tab[n], "form": form})
    steps += [{"cmd": "query", "line": q} for q in QUERIES]
    if history:
        n, b = history
        if b is None:
            if tab[n] is not None:
                steps.append({"cmd": "remove", "name": n})
        else:
            steps.append({"cmd": "define", "name": n, "body": b, "form": form})
        steps += [{"cmd": "query", "line": q} for q in QUERIES]
    return {"names": NAMES, "decs": DECS, "steps": steps}


def scenarios(tier, rng):
    scns = []
    # (1) every table over the reduced body pool, canonical order (thorough) / sample (quick)
    allsmall = list(itertools.product(SMALL, repeat=3))
    if tier == "quick":
        rng.shuffle(allsmall)
        allsmall = allsmall[:1500]
    for t in allsmall:
        scns.append(table_scenario(dict(zip(NAMES, t)), NAMES))
    # (2) random tables over the full pool, in every definition order, list and string forms, with a redefinition
    n2 = 400 if tier == "quick" else 12000
    for k in range(n2):
        tab = {n: rng.choice(FULL) for n in NAMES}
        orders = list(itertools.permutations(NAMES))
        if tier == "quick":
            orders = [orders[0], rng.choice(orders[1:])]
        for o in orders:
            scns.append(table_scenario(tab, list(o), form=rng.choice(["list", "str"]), history=(rng.choice(NAMES), rng.choice(FULL)) if k % 3 == 0 else None))
    return scns


def describe(trace, matched):
    steps = trace["steps"]
    if matched >= len(steps):
        return "trace matched"
    st = steps[matched]
    tab = {}
    for s in steps[:matched]:
        if s["cmd"] == "define":
            tab[s["name"]] = (s["body"]["kind"], s["body"]["toks"])
        elif s["cmd"] == "remove":
            tab.pop(s["name"], None)
    return f"step {matched + 1} not allowed by Alias: table={tab} {st['cmd']} {st.get('line')} observed={json.dumps(st['obs'])}"


def run(tier, seed, replay=None):
    res = core.Result(PID, tier, seed)
    rng = random.Random(seed)
    cfg_name = "Alias.cfg" if tier == "quick" else "Alias_thorough.cfg"
    cfg_text = open(os.path.join(tlc.SPECS, cfg_name)).read()
    trace_cfg = open(os.path.join(tlc.SPECS, "Alias_trace.cfg")).read()
    mc = {}
    if replay:
        payload = json.load(open(replay))["payload"]
        scns = [{"names": NAMES, "decs": DECS, "steps": payload["trace"]["steps"]}]
    else:
        mc = tlc.model_check(SPEC, cfg_text=cfg_text, coverage=True, timeout=3000)
        if mc.get("never_taken"):
            raise tlc.TLCError(f"vacuity: actions never taken in {SPEC}: {mc['never_taken']}")
        scns = scenarios(tier, rng)
    traces = pool.run("alias", scns, hooks=False)
    bad_workers = [t for t in traces if "steps" not in t]
    if bad_workers:
        raise tlc.TLCError("driver failure: " + json.dumps(bad_workers[0])[:3000])
    stats = core.validate_with_findings(res, "AliasTrace", traces, trace_cfg, describe=describe, timeout=3000)
    # order independence: the same table in different definition orders must answer identically
    groups = {}
    for t in traces:
        defs = tuple(sorted((s["name"], json.dumps(s["body"], sort_keys=True)) for s in t["steps"][:3] if s["cmd"] == "define"))
        first_q = [json.dumps([s["obs"].get(k) for k in ("found", "out", "decs", "spec_out")]) for s in t["steps"] if s["cmd"] == "query"][: len(QUERIES)]
        groups.setdefault(defs, set()).add(tuple(first_q))
    for defs, answers in groups.items():
        if len(answers) > 1:
            res.violation(f"alias resolution depends on the definition order for table {defs}", {"table": defs, "answers": [list(a) for a in answers]})
    slow = max((s["obs"].get("wall_ms", 0) for t in traces for s in t["steps"] if s["cmd"] == "query"), default=0)
    cyc = sum(1 for t in traces if any(s["cmd"] == "query" and s["obs"]["out"] and s["obs"]["out"][0] in NAMES for s in t["steps"]))
    cov = {
        "states": mc.get("distinct", 1),
        "transitions": mc.get("states", 1),
        "traces_validated_against_impl": stats["validated"],
        "samples": [[(s["cmd"], s.get("name"), s["body"]["toks"] if s["cmd"] == "define" else s["line"], s["obs"].get("out")) for s in t["steps"][:8]] for t in traces[:2]],
        "evaluations": sum(1 for t in traces for s in t["steps"] if s["cmd"] == "query"),
        "distinct_nontrivial": len(groups),
        "rule": "scenario = alias table over {a,b,c} (list/string/callable/return-command bodies with decorator prefixes, cycles included) defined in some order, then 9 command lines resolved through Aliases.get and SubprocSpec.build; distinct = distinct tables; every table is non-trivial (>= 1 alias defined)",
        "tables_with_self_or_mutual_reference_results": cyc,
        "definition_order_groups": len(groups),
        "max_query_wall_ms": slow,
        "trace_validation": stats,
        "mc_config": cfg_name,
        "mc_action_coverage": mc.get("coverage"),
        "exhaustive": tier == "thorough",
    }
    core.write_evidence(res, "model_checking", cov, assumptions=[
        "termination on the real code is observed with a 20 s alarm per query (measured maximum is reported)",
        "return-command aliases of the universe return `toks + args`",
    ])
    return core.finish(res)
