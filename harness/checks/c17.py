"""C17 - `xonsh format` never changes what a program means, and is idempotent (spec FmtState)."""

from __future__ import annotations

import itertools
import json
import os
import random

from harness import core, findings, pool, pycorpus, tlc
from harness.checks.c03 import HOSTILE

PID = "C17"
O, R = "\u00b7", "\u2423"  # optional gap / required gap markers inside the templates

PY = [
    "x·=·1", "x·=·y·+·z*2", "x·+=·1", "a·==·b", "x:·int·=·1", "print(a,·b·,·c)", "f(x·=·1,·*a,·**k)", "d·=·{'a':·1,·'b'·:·2}", "l·=·[1,2·,·3]",
    "s·=·a[1:2]", "s·=·a[·1·:·2·]", "s·=·a[::2]", "g·=·lambda␣x=1:·x", "g·=·lambda:·0", "y·=·-x", "y·=·a␣if␣b␣else␣c", "y·=·not␣a", "z·=·(n·:=·1)", "t·=·a,·b",
    "*a,·b·=·c", "r·=·2**-1", "m·=·a·@·b", "e·=·...", "assert␣x,·'m'", "del␣x", "import␣os,·sys", "from␣os␣import␣(path,\n    sep)", "x·=·1;·y·=·2", "x·=·1;y=2", "pass",
    "s·=·'a  b'", "s·=·\"a\\tb  \"", "s·=·r'\\  '", "s·=·b'a  b'", "s·=·f'{x}  {y!r:>4}'", "s·=·f\"{x·+·1}\"", "s·=·f'{a=}'", "s·=·'a'␣'b'", "x·=·[\n    1,\n      2,\n]",
    "x·=·f(\n        a,\n  b)", "x·=·(a␣or\n     b)", "x·=·a·+·\\\n    b", "x·=·$HOME", "x·=·${'HOME'}", "x·=·$(ls␣-l)", "x·=·!(ls␣-l)", "p·=·p'/tmp'", "x·=·g`*.py`",
    "print($(echo␣a),·end·=·'')", "x·=·$(echo␣a,b␣c:d)", "x·=·$(echo␣a==b␣k=v)", "y·=·!(grep␣-e␣a,b␣f)", "z·=·$[echo␣x:y␣a!=b]", "s·=·f'{x:{w}}'", "s·=·f'{x = }'", "s·=·f'{x!r:>{w}}␣{y}'", "r·=·!(ls␣@$(which␣ls)␣--color=auto)", "x·=·$(env␣@$(echo␣A)␣PATH=/bin␣ls)", "y·=·$[echo␣@$(echo␣a)␣k=v]", "z·=·f($(echo␣@(a)␣b=c),·k·=·1)", "x·=·a␣is␣not␣b", "x·=·a␣in␣b", "x·=·a<b", "x·=·a·<=·b·>=·c·!=·d", "x·=·a·//·b", "x·=·a·<<·2", "x·=·~a", "x·=·a·&·b·|·c·^·d",
    "x·=·[i␣for␣i␣in␣y␣if␣i]", "x·=·{k:·v␣for␣k,·v␣in␣z}", "x·=·f(a)(b)[c].d", "x·=·a␣if␣b␣else␣(c,)", "print(*a,·sep·=·'')", "x·=·1_000·+·0x1f·+·1e-3·+·2j",
    "x·=·a␣or␣b␣and␣not␣c", "global␣gg", "x·=·[\n]", "x·=·f(a,·#·why\n      b)", "x·=·{\n    'k':·1,·#·one\n}", "s·=·'#·not␣a␣comment'", "x·=·a[b][c:d,·e]",
    "s·=·'\\''", "s·=·\"'\"", "s·=·'''q'''", "s·=·'''a\nb'''", "s·=·\"\"\"a\n  b\n\"\"\"", "s·=·f'''{x}\n{y}'''", "t·=·(1,)", "t·=·()", "x·=·-1·**·-2", "x·=·(a)",
]
PY_TRAIL = ["s·=·'''a  \nb\t\n  c'''", "s·=·\"\"\"doc  \n\"\"\"", "s·=·f'''{x}  \n  y'''", "s·=·r'''a \\\n'''", "x·=·f('''k \n''',·1)"]
HEADS = [
    ("if␣a·==·1:", None), ("if␣a:", "else:"), ("if␣a:", "elif␣b:"), ("for␣i␣in␣range(3):", None), ("for␣i,·j␣in␣z:", "else:"), ("while␣x:", None), ("def␣f(a,·b·=·1)·->·int:", None),
    ("def␣g(*a,·**k):", None), ("def␣h(a:·int·=·1,·/,·b,·*,·c):", None), ("class␣A(B):", None), ("class␣C:", None), ("with␣open('f')␣as␣g:", None), ("with␣a␣as␣b,·c␣as␣d:", None),
    ("try:", "except␣E␣as␣e:"), ("try:", "finally:"), ("try:", "except␣(E,·F):"), ("async␣def␣k():", None), ("@dec\ndef␣m():", None), ("@dec(1,·x·=·2)\nclass␣D:", None), ("if␣(a␣and\n        b):", None),
    ("with␣${...}.swap(A·=·1):", None), ("for␣f␣in␣$(ls).split():", None), ("if␣!(test␣-f␣x):", None), ("def␣n():··#·c", None), ("while␣True:·#c", None),
]
ONELINE = ["if␣a:·x·=·1", "for␣i␣in␣y:·pass", "while␣0:·pass", "class␣E:·pass", "def␣o():·return␣1", "with␣a:·pass", "if␣a:␣ls␣-l", "try:·pass\nexcept:·pass"]
SUB = [
    "ls␣-la", "echo␣a␣b", "echo␣--k=v", "echo␣\"a  b\"␣c", "ls␣|␣grep␣x", "echo␣a␣>␣f.txt", "echo␣a␣2>&1", "ls␣&&␣echo␣ok␣||␣echo␣no", "echo␣@(x)␣$(ls␣-l)", "$[ls␣-l]", "![echo␣a]",
    "echo␣$HOME/bin", "echo␣${'X'}", "echo␣@$(which␣ls)", "cd␣..", "echo␣a=b", "git␣commit␣-m␣\"msg  x\"", "echo␣a;␣echo␣b", "echo␣--␣-x", "ls␣-l␣\\\n  -a", "echo␣*.py", "echo␣g`*.py`",
    "echo␣a␣&", "./script.sh␣arg", "~/bin/x␣--flag", "python␣-c␣\"print( 1 )\"", "echo␣'it'\"s\"", "echo␣a␣#␣cmt", "echo␣-n␣a", "echo␣a-b␣c+d", "echo␣1␣2␣3", "echo␣a,b␣c", "echo␣x:y",
    "echo␣@(a·+·b)", "echo␣$(echo␣a␣|␣cat)", "ls␣-l␣|␣head␣-n␣1␣>␣out␣2>␣err", "echo␣{a,b}", "echo␣a␣and␣echo␣b", "sudo␣-u␣x␣ls", "echo␣r'a\\  b'", "echo␣f'{x}  y'", "echo␣$X␣${'Y'}",
    "echo␣@(x)@(y)", "echo␣a␣e>␣f", "echo␣a␣>>␣f", "cat␣<␣f", "echo␣a␣|␣cat␣|␣cat", "ls␣-l␣-a␣-h", "echo␣--a=b␣--c=d", "echo␣-x=1", "echo␣a==b", "echo␣a!=b", "echo␣a+=b", "echo␣a->b",
    "echo␣a:=b", "echo␣'a'␣'b'", "echo␣x.y␣z", "echo␣[a]␣b", "echo␣a/b/c", "echo␣@(['a',·'b'])", "echo␣@(x␣if␣y␣else␣z)", "xonsh␣-c␣'echo  1'", "echo␣$(ls␣\\\n    -l)",
    "echo␣a␣||␣\\\n  echo␣b", "sed␣--in-place␣s/a/b/␣f", "rsync␣--exclude-from=skip.lst␣a␣b", "make␣--with-ssl␣--without-x", "git␣checkout␣for-review", "echo␣not-x␣is-y␣if=a␣or-b",
    "dd␣if=/dev/zero␣of=out␣bs=1", "echo␣a\\\nb", "echo␣--long-\\\noption␣x", "echo␣$(echo␣a,b)␣x:y", "ls␣/tmp␣-5", "du␣-h␣/␣x", "echo␣@(x)=y", "echo␣$(ls)/sub", "tar␣--exclude=*.pyc␣-cf␣a.tar␣.", "echo␣class-a␣def-b␣import-c␣return=1", "x·=·$(echo␣a␣b).strip()", "echo␣@(f'{a}  b')", "echo␣a␣2>␣/dev/null", "echo␣-", "echo␣=", "echo␣a␣=␣b",
    "ls␣-1␣--color=auto", "ls␣-1␣a=b␣c,d", "head␣-5␣f.txt␣k:v", "$HOME/bin/x␣a,b␣--k=v", "$HOME/bin/x", "x·=·1;␣echo␣a=b␣c,d", "x·=·1;␣ls␣-l␣k:v;␣y·=·2", "print(1);␣echo␣a==b", "x·=·1;␣echo!␣a   b",
    "x·=·1;␣$HOME/bin/x␣a=b", "ls␣-1", "cmd␣-2␣-x␣a!=b",
]
MACRO = ["with!␣ctx():\n    raw   body  text\n    more   raw , x", "echo!␣a   b  c", "echo!·x", "f!(a   b,  c)", "timeit!␣ls   -l", "bash␣-c␣!␣echo   a  b", "f!(x  +  y)", "g!(  'a  b'  )", "echo!␣--k = v  # not a comment?", "x·=·f!(a  ,b)", "h!([1,  2],   {3:  4})",
         "r·=·f!(g!(a  b)  c)", "f!(g!(a , b)  ,c ,  h!( d ))", "echo!␣a␣\\\n   b", "echo!␣a␣\\\n         b   c", "r·=·f!(a␣\\\n      b)", "x·=·1;␣echo!␣a   b  ,c"]
COMMENTS = ["#·c", "#c", "#def foo():", "#  indented   text", "#!shebang", "# trailing   ", "#"]
INLINE = ["··#·inline", "·#inline", "␣#  spaced   out", "··#"]

RAW_ATOMS = ["x", "1", "+", ",", "'a  b'", '"""a\n  b"""', "'''p\nq'''", "(y  z)", "g!(u  v)", "\\\n", "$X", "@(k)", "[1,  2]", "{3:  4}", "a=b", "-k", "not", "k:v", "# why\n", "#y\n"]
RAW_FN = ["r = f!(«»)", "r = g(f!(«»), 1)", "f!(«»)", "x = 1; r = f!(«»)"]
RAW_ALIAS = ["echo! «»", "timeit! «»", "bash -c ! «»", "x = 1; echo! «»"]
LINEEND_TEMPLATES = ["s = 'a«»b'", "s = '''one«»two'''   ", "s = '''l1\nl2«»l3\n'''", "x = 1  # c«»d", "# only«»comment", "echo 'a«»b' c", "s = f'{x}«»y'", "def f():\n    s = '''p«»q'''   \n    return s  # e«»f", "s = b'a«»b'"]

GAPS = {
    "compact": {O: "", R: " "},
    "one": {O: " ", R: " "},
    "many": {O: "   ", R: "   "},
    "tabs": {O: "", R: "\t"},
}


def lay(template, mode, rng=None, tabs_ok=True):
    if not tabs_ok and mode == "tabs":
        mode = "one"
    if mode == "mixed":
        out = ""
        for ch in template:
            if ch == O:
                out += rng.choice(["", " ", "  ", "   "])
            elif ch == R:
                out += rng.choice([" ", "  ", "    ", "\t"] if tabs_ok else [" ", "  ", "    "])
            else:
                out += ch
        return out
    g = GAPS[mode]
    return template.replace(O, g[O]).replace(R, g[R])


def indent_block(text, unit, depth):
    return "\n".join((unit * depth + ln) if ln.strip() else ln for ln in text.split("\n"))


def features(src, kinds):
    import ast as _ast
    import re as _re

    assign_like = False
    for ln in src.split("\n"):
        if _re.match(r"^\s*\w+=\S+\s+\S", ln):
            try:
                _ast.parse(ln.strip())
            except SyntaxError:
                assign_like = True
    dangling = bool(_re.search(r"\\\n\s*$", src)) and src.rstrip(" \t\n").endswith("\\")
    # a `#` glued to the token before it, on a line after a statement that used a xonsh bracket form
    glued = False
    seen_bracket = False
    for ln in src.split("\n"):
        if seen_bracket and _re.search(r"[^\s#]#", ln):
            glued = True
        if any(b in ln for b in ("![", "$[", "$(", "!(", "@(", "${", "@$(")):
            seen_bracket = True
    with_macro = any(_re.match(r"^\s*with!", ln) for ln in src.split("\n"))
    glued_cont = bool(_re.search(r"\S\\\n\S", src))
    kw_led = any(_re.match(r"^\s*[\w./~-]+\s+(not|is|in|if|or|and|else|for|while|with|as|lambda|del|from|import|return|yield)[-=]", ln) for ln in src.split("\n"))
    # an indented function-macro call whose parenthesis is still open at the end of its physical line
    ml_macro = False
    for ln in src.split("\n"):
        m = _re.search(r"\w!\(", ln)
        if m and ln[:1] in (" ", "\t") and not ln.rstrip().endswith("\\"):
            rest = _re.sub(r"'[^']*'|\"[^\"]*\"", "", ln[m.end() - 1:])
            rest = rest.split("#")[0] if "#" in rest else rest
            if rest.count("(") > rest.count(")") or "#" in ln[m.end():]:
                ml_macro = True
    f = {"multiline_macro_in_block": ml_macro, "triple_trailing": False, "with_macro_block": with_macro, "glued_continuation": glued_cont, "keyword_led_argument": kw_led, "glued_hash_after_bracket": glued, "assign_like_command": assign_like, "dangling_continuation": dangling, "macro": "macro" in kinds, "sub": "sub" in kinds, "cont": "\\\n" in src, "tabs": "\t" in src, "crlf": "\r" in src}
    # a triple-quoted literal with blanks before one of its inner newlines
    for q in ("'''", '"""'):
        parts = src.split(q)
        for inner in parts[1::2]:
            if any(ln != ln.rstrip(" \t") for ln in inner.split("\n")[:-1]):
                f["triple_trailing"] = True
    return f


class Gen:
    def __init__(self, rng):
        self.rng = rng

    def stmt(self, kind, mode):
        rng = self.rng
        if kind == "py":
            t = rng.choice(PY)
        elif kind == "trail":
            t = rng.choice(PY_TRAIL)
        elif kind == "sub":
            t = rng.choice(SUB)
        elif kind == "macro":
            t = rng.choice(MACRO)
        elif kind == "oneline":
            t = rng.choice(ONELINE)
        else:
            t = rng.choice(COMMENTS)
        # tab characters between subprocess words are not explored (xonsh's own lexer does not treat a
        # tab as an argument separator consistently: `echo\ta\t#` reads `a\t#` as one word)
        s = lay(t, mode, rng, tabs_ok=kind not in ("sub", "macro", "oneline") and not any(x in t for x in ("$(", "!(", "$[", "![")))
        if kind in ("py", "sub") and rng.random() < 0.15 and "\n" not in s and "#" not in s:
            # (a `#` glued to a subprocess word belongs to the word: explored in the one-statement universe only)
            # (and a tab right before `#` after a command line sends xonsh's own parser astray: not explored)
            s += " " + lay(rng.choice(INLINE), mode, rng, tabs_ok=False)
        return s

    def block(self, depth, maxdepth, unit, mode, kinds):
        rng = self.rng
        lines = []
        n = rng.randint(1, 3)
        for _ in range(n):
            r = rng.random()
            if r < 0.25 and depth < maxdepth:
                head, mid = rng.choice(HEADS)
                lines.append(indent_block(lay(head, mode, rng), unit, depth))
                lines += self.block(depth + 1, maxdepth, unit, mode, kinds)
                if mid:
                    lines.append(indent_block(lay(mid, mode, rng), unit, depth))
                    lines += self.block(depth + 1, maxdepth, unit, mode, kinds)
            else:
                kind = rng.choices(["py", "sub", "macro", "comment", "trail", "oneline"], [40, 30, 6, 10, 5, 5])[0]
                kinds.add(kind)
                s = self.stmt(kind, mode)
                if rng.random() < 0.1:
                    s += rng.choice(["  ", "   ", " "])  # trailing blanks
                lines.append(indent_block(s, unit, depth))
            if rng.random() < 0.3:
                lines += [rng.choice(["", "", "   ", "\t"])] * rng.randint(1, 3)
        return lines

    def program(self, maxdepth=3):
        rng = self.rng
        unit = rng.choice(["    ", "  ", "\t", "        "])
        mode = rng.choice(["compact", "one", "many", "tabs", "mixed", "mixed"])
        kinds = set()
        lines = self.block(0, maxdepth, unit, mode, kinds)
        src = "\n".join(lines) + rng.choice(["\n", "\n", "", "\n\n\n"])
        return src, kinds


def universe(tier, rng, streams):
    scns = []

    def add(src, kinds):
        scns.append({"src": src, "feat": features(src, kinds)})

    # U1: every template alone, in every gap mode, at top level and inside a block with every indent unit
    for kind, poolx in (("py", PY), ("trail", PY_TRAIL), ("sub", SUB), ("macro", MACRO), ("oneline", ONELINE), ("comment", COMMENTS)):
        for t in poolx:
            for mode in ("compact", "one", "many", "tabs"):
                s = lay(t, mode, tabs_ok=kind not in ("sub", "macro", "oneline") and not any(x in t for x in ("$(", "!(", "$[", "![")))
                add(s + "\n", {kind})
                for unit in ("    ", "  ", "\t", "        ") if tier == "thorough" or mode == "many" else ("\t",):
                    add("if a:\n" + indent_block(s, unit, 1) + "\n", {kind})
                    add("def f():\n" + unit + "if a:\n" + indent_block(s, unit, 2) + "\n" + unit + "x = 1\ny = 2\n", {kind})
            for inl in INLINE:
                if "\n" not in t and "#" not in t and kind in ("py", "sub"):
                    add(lay(t + inl, "many") + "\n", {kind})
                    add(lay(t + inl, "compact") + "\n", {kind})
    # U2: every block head (+ continuation clause), in every gap mode
    for head, mid in HEADS:
        for mode in ("compact", "one", "many", "tabs"):
            for unit in ("    ", "\t", "  "):
                body = unit + "pass\n"
                s = lay(head, mode) + "\n" + body + (lay(mid, mode) + "\n" + body if mid else "")
                add(s, {"py"})
                add(s + "\n\n\n\n" + s, {"py"})
    # U3: pairs of statements with blank-line runs and comments between; U4: random programs
    # (both drawn from the fixed random streams)
    pairs = list(itertools.product(["py", "sub", "macro", "comment", "trail"], repeat=2))
    for srng in streams:
        g = Gen(srng)
        for a, b in pairs:
            for blanks in range(0, 4):
                for _ in range(2):
                    mode = srng.choice(list(GAPS) + ["mixed"])
                    s = g.stmt(a, mode) + "\n" + srng.choice(["", "  ", "\t"]).join(["\n"] * blanks) + g.stmt(b, mode) + "\n"
                    add(s, {a, b})
        for _ in range(1500):
            src, kinds = g.program()
            add(src, kinds)
    # U5: CRLF / form feed / no final newline / only blanks
    for t in PY[:12] + SUB[:12]:
        s = lay(t, "one")
        add(s + "\r\n" + s + "\r\n", {"py"})
        add(s, {"py"})
        add("\n\n" + s + "\n\n\n", {"py"})
    add("", set())
    add("\n", set())
    add("   \n\t\n", set())
    # U6: raw regions - the text between `f!(` and its `)`, and after `name!`, is an argument taken
    # verbatim: every blank in it counts.  Atoms that have made formatters slip (comments, multi-line
    # strings not starting in column 0, continuations, nested macros, punctuation) in every order,
    # separated by gaps of 0-3 blanks, in function-macro and alias-macro containers at two depths.
    for srng in streams:
        for k in range(260):
            fn = k % 2 == 0
            atoms = [srng.choice(RAW_ATOMS) for _ in range(srng.randint(2, 4))]
            if not fn:
                atoms = [a for a in atoms if not a.startswith("#")] or ["x"]
            body = ""
            for a in atoms:
                body += a + srng.choice(["", " ", "  ", "   "])
            if not fn:
                body = body.rstrip(" ")
                if body.endswith("\\\n") or not body:
                    body += "z"
            cont = srng.choice(RAW_FN if fn else RAW_ALIAS).replace("«»", body)
            if srng.random() < 0.4:
                cont = "if a:\n" + indent_block(cont, srng.choice(["    ", "  ", "\t"]), 1)
            add(cont + "\n", {"macro"})
    # U7: characters that some line-splitting routines take for line ends (form feed, vertical tab,
    # FS/GS/RS, NEL, LINE/PARAGRAPH SEPARATOR) inside string literals, comments and command words
    for ch in ("\x0c", "\x0b", "\x1c", "\x1d", "\x1e", "\x85", "\u2028", "\u2029"):
        for t in LINEEND_TEMPLATES:
            if "b'" in t and ord(ch) > 127:
                continue
            add(t.replace("«»", ch) + "\n", {"py"})
    # U8: the pure-Python corpus (harness/pycorpus.py: statements and embedded programs of CPython's own
    # syntax tests as installed), judged with CPython's parser; texts with a CR that is not part of a CRLF
    # are left out (control characters inside a line are not explored, see the assumptions)
    import re as _re

    for k, text, origin in pycorpus.load():
        if _re.search(r"\r(?!\n)", text) or "\x0c" in text:
            continue
        if _re.search(r"coding[:=]", "\n".join(text.split("\n")[:2])):
            continue  # an encoding declaration is about the bytes of a file, not about this text
        scns.append({"src": text, "feat": features(text, {"py"}), "pyoracle": True})
    seen, uniq = set(), []
    for s in scns:
        if s["src"] not in seen:
            seen.add(s["src"])
            uniq.append(s)
    # a fixed seventh of the cases also goes through the command-line entry point, rewriting a file in place
    for i, s in enumerate(uniq):
        if i % 7 == 0:
            s["cli"] = True
    return uniq


def rejected_universe(tier, rng):
    # (control characters inside a line - form feed, NUL, CR - are not explored)
    texts = [h for h in HOSTILE if len(h) < 300 and not any(c in h for c in "\x0c\x00\r")] + ["x = '''abc\n", "x = (1,\n", "  x = 1\n y = 2\n", "if a:\n\tx\n        y\n", "def f(:\n", "x = $(\n", "echo 'a\n", "if a:\nx\n"]
    return [{"src": t, "feat": features(t, set())} for t in texts]


def describe(trace, matched):
    o = trace["steps"][0]["obs"]
    msg = f"format: {o['kind']} (same_tree={o['same_tree']} comments_same={o['comments_same']} idempotent={o['idempotent']}) {o.get('detail', '')}\n--- input ---\n{trace['src']!r}\n--- output ---\n{trace['out']!r}"
    if trace.get("again") is not None:
        msg += f"\n--- formatted again ---\n{trace['again']!r}"
    return msg


def slim(t):
    o = t["steps"][0]["obs"]
    f = t["feat"]
    return {"feat": {k: bool(f.get(k)) for k in ("multiline_macro_in_block", "triple_trailing", "assign_like_command", "dangling_continuation", "glued_hash_after_bracket", "keyword_led_argument", "with_macro_block", "glued_continuation")}, "steps": [{"cmd": "format", "obs": {"accepted": o["accepted"], "same": bool(o["same_tree"] and o["comments_same"]), "idem": bool(o["idempotent"])}}]}


def run(tier, seed, replay=None):
    res = core.Result(PID, tier, seed)
    rng = random.Random(seed)
    cfg_text = open(os.path.join(tlc.SPECS, "FmtState.cfg")).read()
    mc = {}
    if replay:
        payload = json.load(open(replay))["payload"]
        scns = [{"src": payload["trace"]["src"], "feat": features(payload["trace"]["src"], set()), "cli": True}]
    else:
        mc = tlc.model_check("FmtState", cfg_text=cfg_text, coverage=True, timeout=900)
        if mc.get("never_taken"):
            raise tlc.TLCError(f"vacuity: actions never taken in FmtState: {mc['never_taken']}")
        selftest = {}
        for dev in findings.open_deviations(PID):
            r = tlc.model_check("FmtState", cfg_text=core.set_deviations(cfg_text, [dev]), expect_ok=False, coverage=False, timeout=600)
            selftest[dev] = r["errors"][:1]
        res.coverage["deviation_selftest"] = selftest
        scns = universe(tier, rng, core.streams(tier, seed)) + rejected_universe(tier, rng)
    out = pool.run("fmt", scns, hooks=False, timeout=3000)
    bad_workers = [t for t in out if "steps" not in t]
    if bad_workers:
        raise tlc.TLCError("driver failure: " + json.dumps(bad_workers[0])[:3000])
    stats = core.validate_with_findings(res, "FmtStateTrace", out, cfg_text, describe=describe, timeout=3000, project=slim)
    kinds = {}
    for t in out:
        k = t["steps"][0]["obs"]["kind"]
        kinds[k] = kinds.get(k, 0) + 1
    premise = sum(1 for t in out if t["steps"][0]["obs"].get("premise") and t["steps"][0]["obs"]["accepted"])
    cov = {
        "states": mc.get("distinct", 1),
        "transitions": mc.get("states", 1),
        "traces_validated_against_impl": stats["validated"],
        "samples": [{"src": t["src"], "out": t["out"], "kind": t["steps"][0]["obs"]["kind"]} for t in out[len(out) // 2: len(out) // 2 + 3]],
        "evaluations": len(out),
        "distinct_nontrivial": len({t["src"] for t in out if t["steps"][0]["obs"].get("changed") and t["steps"][0]["obs"].get("premise")}),
        "rule": "one case = a source text assembled from statement templates (Python simple/compound statements, subprocess lines, macros, multi-line and f-strings, comments) whose inter-token gaps are laid out compactly / with one space / with runs of spaces / with tabs / mixed, nested in blocks to depth 3 with indent unit tab/2/4/8, blank-line runs 0-3 (with blanks on them), trailing blanks, CRLF, with and without final newline; plus random atom sequences inside function-macro and alias-macro bodies (raw regions), line-boundary characters other than LF inside literals and comments, and about 18 000 statements / embedded programs of CPython's own syntax tests as installed (judged with CPython's parser); the real formatter's output is parsed by xonsh's own three-phase parser and compared with the parse of the input (string constants, subprocess arguments and macro bodies are constants of that tree), comment texts are compared, and the output is formatted again; inputs the tokenizer rejects go through the command-line entry point (file must stay untouched, non-zero exit); non-trivial = a parsable input the formatter actually changed; distinct by text",
        "outcomes": kinds,
        "inputs_within_premise": premise,
        "trace_validation": stats,
        "mc_action_coverage": mc.get("coverage"),
        "exhaustive": False,
    }
    cov.update(res.coverage)
    core.write_evidence(res, "model_checking", cov, assumptions=[
        "meaning = the transformed tree of xonsh's own three-phase parse (locations dropped) plus the sequence of comment texts",
        "an input xonsh's parser rejects is outside the premise (its output must be rejected too); idempotence is required of every accepted input",
    ])
    return core.finish(res)
