"""C03 - a bare command line means exactly its explicit ![...] form, everywhere; detection always
terminates (specs CmdGrammar and Recovery)."""

from __future__ import annotations

import itertools
import json
import os
import random

from harness import core, findings, pool, tlc
from harness.drivers.cmdwrap import ATOM_TEXT, BLOCKS, REDIR

PID = "C03"
KINDS = list(ATOM_TEXT)
OPS = ["and", "or", "&&", "||"]
BLOCK_KINDS = list(BLOCKS)
ARG_KINDS = [k for k in KINDS if k not in REDIR]


def seg(atoms=(), pipe=None, amp=False, cont=0, rc=0):
    return {"atoms": list(atoms), "pipe": list(pipe or []), "haspipe": pipe is not None, "amp": amp, "cont": cont, "rc": rc}


def pos(semi="none", comment=False, blocks=(), indent="    ", before=(), after=(), sb=False, sa=False):
    return {"semi": semi, "comment": comment, "blocks": list(blocks), "indent": indent, "before": list(before), "after": list(after), "stmt_before": sb, "stmt_after": sa}


def shape(segs, ops=(), p=None):
    return {"segs": list(segs), "ops": list(ops), "pos": p or pos()}


def positions():
    """Every statement position of the universe (top level, `;`, blocks of every kind at depth 1,
    nestings to depth 3, indentation units, neighbours, comments)."""
    out = [pos()]
    for semi in ("before", "after", "both"):
        out.append(pos(semi=semi))
    out.append(pos(comment=True))
    for b in BLOCK_KINDS:
        out.append(pos(blocks=[b]))
        out.append(pos(blocks=[b], sb=True, sa=True))
        out.append(pos(blocks=[b], semi="both", comment=True))
    for b1, b2 in itertools.product(BLOCK_KINDS, repeat=2):
        out.append(pos(blocks=[b1, b2]))
    for b3 in (["if", "for", "def"], ["def", "with", "try"], ["class", "def", "while"], ["try", "except", "else"], ["while", "if", "with"]):
        out.append(pos(blocks=b3))
        out.append(pos(blocks=b3, indent="  "))
    for ind in ("  ", "        ", "\t"):
        out.append(pos(blocks=["if"], indent=ind))
        out.append(pos(blocks=["for", "if"], indent=ind, sb=True))
    for pre in ("assign", "triple", "paren", "blank", "comment", "cmd", "def", "bsl"):
        out.append(pos(before=[pre]))
        out.append(pos(after=[pre]))
        out.append(pos(before=[pre], blocks=["if"], after=[pre]))
    out.append(pos(before=["triple", "blank", "cmd"], blocks=["def", "if"], after=["comment", "cmd"], sb=True, sa=True, comment=True))
    return out


def universe(tier, rng, streams):
    P = positions()
    shapes = []
    # U1: one segment, one atom of every kind, in every position
    for k in KINDS:
        for p in P:
            shapes.append(shape([seg([k])], p=p))
    shapes += [shape([seg([])], p=p) for p in P]
    # U2: every ordered pair of atom kinds in one segment (top level + one block)
    for a, b in itertools.product(KINDS, repeat=2):
        shapes.append(shape([seg([a, b])]))
        shapes.append(shape([seg([a, b], cont=2)], p=pos(blocks=["if"])))
        shapes.append(shape([seg([a, b], cont=2)]))
        shapes.append(shape([seg([a, "word", b], cont=3)], p=pos(semi="before")))
    # U3: two segments, every operator, every atom kind on either side; rc of the first segment both ways
    for op in OPS:
        for k in KINDS:
            for rc in (0, 1):
                shapes.append(shape([seg(["word"], rc=rc), seg([k])], [op]))
                shapes.append(shape([seg([k], rc=rc), seg(["word"])], [op]))
            shapes.append(shape([seg([k]), seg([k])], [op], pos(blocks=["for"], sb=True)))
            shapes.append(shape([seg([k]), seg(["flag", k])], [op], pos(semi="before")))
    # U4: pipes and trailing &
    for k in KINDS:
        shapes.append(shape([seg([k], pipe=["word"])]))
        shapes.append(shape([seg(["word"], pipe=[k])]))
        shapes.append(shape([seg([k], pipe=[])], p=pos(blocks=["def"])))
        for op in OPS:
            shapes.append(shape([seg(["word"], pipe=[k]), seg([k], pipe=["flag"])], [op]))
        if k not in REDIR:
            shapes.append(shape([seg([k], amp=True)]))
            shapes.append(shape([seg(["word"]), seg([k], amp=True)], ["&&"]))
    # U5: three segments, every operator pair, in positions (atoms from the fixed random streams)
    for o1, o2 in itertools.product(OPS, repeat=2):
        for rcs in itertools.product((0, 1), repeat=2):
            shapes.append(shape([seg(["word"], rc=rcs[0]), seg(["flag"], rc=rcs[1]), seg(["sq"])], [o1, o2]))
    for srng in streams:
        for o1, o2 in itertools.product(OPS, repeat=2):
            for p in P[::7]:
                ks = [srng.choice(KINDS) for _ in range(3)]
                shapes.append(shape([seg([ks[0]], rc=srng.randint(0, 1)), seg([ks[1]], rc=srng.randint(0, 1)), seg([ks[2]])], [o1, o2], p))
        # U6: two segments in every position
        for p in P:
            for op in OPS:
                a, b = srng.choice(KINDS), srng.choice(KINDS)
                shapes.append(shape([seg([a]), seg([b])], [op], p))
                shapes.append(shape([seg(["flag", "word"], cont=srng.randint(0, 2)), seg(["sq", "env"], cont=srng.randint(0, 2))], [op], p))
        # U7: random mixtures
        for _ in range(400):
            nseg = srng.choice((1, 1, 2, 2, 3, 4))
            segs = []
            for i in range(nseg):
                atoms = [srng.choice(KINDS) for _ in range(srng.randint(0, 3))]
                pipe = [srng.choice(ARG_KINDS) for _ in range(srng.randint(0, 2))] if srng.random() < 0.25 else None
                segs.append(seg(atoms, pipe=pipe, amp=(i == nseg - 1 and srng.random() < 0.1), cont=srng.randint(0, len(atoms)) if srng.random() < 0.2 else 0, rc=srng.randint(0, 1)))
            shapes.append(shape(segs, [srng.choice(OPS) for _ in range(nseg - 1)], srng.choice(P)))
    if tier == "quick":
        # the quick tier keeps every U1-U4 shape at top level and a seeded third of the rest
        keep = []
        for s in shapes:
            top = not s["pos"]["blocks"] and s["pos"]["semi"] == "none" and not s["pos"]["before"] and not s["pos"]["after"]
            if top or rng.random() < 0.34:
                keep.append(s)
        shapes = keep
    seen, uniq = set(), []
    for s in shapes:
        k = json.dumps(s, sort_keys=True)
        if k not in seen:
            seen.add(k)
            uniq.append(s)
    return uniq


HOSTILE = [
    "", "\n", " \n", "\t\n", "\\\n", "\\", "#", "# x\n", "a \\\n", "a \\\n\n", "a\\\n\\\n\\\n", "![", "![![", "![![ls]]", "$(", "$[", "@(", "@$(", "${", "!(", "]", ")", "}",
    "ls )", "ls ]", "ls }", "echo $(ls", "echo @(", "echo ${", "echo 'a", 'echo "a', "echo '''a\nb", 'echo """a\nb', "echo r'a", "echo f'{a", "echo f'{a}", "echo $", "echo $ a",
    "ls &&", "ls ||", "&& ls", "|| ls", "ls && && ls", "ls and", "and ls", "ls |", "| ls", "ls | | ls", "ls &", "& ls", "ls & ls", "ls & && ls", "ls ;", "; ls", ";;", "ls ;; ls",
    "if True:\nls\n", "if True:\n  ls\n ls\n", "if True:\n\tls\n        ls\n", "for x in y:\nls -l\n", "def f():\nreturn\n", "if True:\n    ls -l &&\n", "if True:\n    ls -l && \\\n    echo b\n",
    "while True:\n    ls \\\n -l\n    break\n", "x = (1,\n", "x = [1,\nls -l\n", "x = {\nls -l\n}\n", "f(ls -l)", "(ls -l)", "[ls -l]", "{ls -l}", "x = ls -l", "x = $(ls -l", "return ls", "lambda: ls -l",
    "echo a && echo --b=c", "mkdir x || ls --color=auto", "echo a; echo --b=c", "a=1 b=2 ls", "ls > ", "ls >", "ls 2>", "ls <", "ls > > f", "ls >> >> f", "> f", "< f ls",
    "ls -l\n\n\n\n\nls -l\n", "ls -l\n  \n\t\nls -l\n", "ls -l # c\n# c\n  # c\nls\n", "ls\r\nls -l\r\n", "ls\rls", "ls\x0cls", "ls\x00ls", "\x00", "ls \\\r\n -l",
    "echo \\", "echo \\\n", "echo a\\ b", "echo a \\ b", "echo \\\\\n", "echo 'a' \\\n 'b' \\\n 'c'", "echo a \\\n  && echo b \\\n  || echo c", "echo a &&\necho b", "echo a and\necho b",
    "![ls] && ![ls --a=b]", "![ls -l] and ls -l", "ls -l and ![ls -l]", "$[ls] | ls", "!(ls) ls", "![ls] ls", "ls ![ls]", "ls $[ls]", "ls $(ls $(ls $(ls)))", "ls @(1) @(2) @$(ls) $a ${'b'}",
    "echo $(", "echo $()", "echo @()", "echo @$()", "echo ![]", "echo $[]", "![]", "$[]", "$()", "!()", "@()", "@$()", "![ ]", "![\n]", "![ls\n]", "![ls \\\n]",
    "with open('f') as g: ls -l", "if x: ls -l", "if x: ls -l\nelse: ls", "try: ls -l\nexcept: ls", "class A: ls -l", "def f(): ls -l", "for i in x: ls -l; ls",
    "ls -l if x else ls", "ls if", "ls else", "ls for", "ls in", "ls not", "ls is", "not ls -l", "not ls", "ls not -l", "ls or", "or", "and", "not", "in", "is", "if", "else", "elif x:", "else:", "except:", "finally:",
    "ls -l:\n", "ls:\n    ls\n", "ls -l:\n    ls\n", "echo a:\n  b", "a b c d e (", "a b c d e )", "a b c d e [", "a b (c d) e", "a b (c d e", "a b c) d e", "a (b (c (d (e", "a ))))", "a ]]]]", "((((a", "[[[[a",
    "e" * 2000, "ls " + "-l " * 150, " && ".join(["ls -l"] * 40), "\n".join(["ls -l && echo --a=b"] * 12), "\n".join(["if x:"] + ["    " * (i + 1) + "if x:" for i in range(12)]) + "\n" + "    " * 13 + "ls -l\n",
    "echo " + "(" * 50, "echo " + ")" * 50, "echo " + "$(" * 30, "echo " + "'" * 7, 'echo ' + '"' * 7, "echo " + "\\" * 9, "\\\n" * 30 + "ls", "ls " + "\\\n" * 30,
    "echo \"$(\"", "echo '$('", "echo $(echo ')')", "echo $(echo '(')", "echo @('(')", "echo @(')')", "echo @(\")\")", "echo ${')'}", "echo f\"{')'}\"", "echo )(", "echo ][", "echo }{",
    "ls\n    ls\n", "    ls\nls\n", "  ls\n    ls\n  ls\n", "\tls\n", "if x:\n    ls\n  ls\n", "if x:\n\n\n    ls -l\n\n\nelse:\n\n    ls -l\n", "if x:\n    pass\nls -l && ls --a=b\n",
    "echo 🐚", "ls \u00a0-l", "ls\u2028-l", "echo é && echo ü", "λ -l", "ls -λ", "echo '\\N{bad}'", "echo b'\\xff'", "echo \\N", "echo \\x",
    "@error_raise ls", "@thread ls -l", "@unthread", "@", "@ ls", "@@", "@(", "ls @", "ls @ x", "ls !", "ls! -l", "ls!(x)", "ls! ", "!", "!!", "! ls", "$", "$$", "$ ls", "ls $", "?", "ls?", "ls??", "??",
    "import os; ls -l", "x = 1; ls -l; y = 2", "ls -l; x = ", "ls -l; (", "ls -l; )", "; ; ls", "ls -l;;", "ls;ls;ls;ls;ls;ls;ls;ls;ls;ls;ls;ls;ls;ls;ls;ls;ls;ls;ls;ls",
    "echo 1>2", "echo 1>&2", "echo 2>&1 >", "echo a>", "echo e>", "echo a>p", "echo e>o |", "echo o>e >", "1>2", "a>b", "a>>b", "a<b>c", "ls 1>2>3", "ls <<< a", "ls << EOF",
]

ALPHABET = ["a", " ", "&", "|", "(", ")", "[", "]", "$", "!", "'", '"', "\n", "\\", ";", ":", "#", "@", "=", "-", ">"]


def hostile_universe(tier, rng, rendered, streams):
    texts = list(HOSTILE)
    # every string of length <= 3 over the alphabet (length 4 in the thorough tier)
    for n in (1, 2, 3):
        texts += ["".join(t) for t in itertools.product(ALPHABET, repeat=n)]
    if tier == "thorough":
        texts += ["".join(t) for t in itertools.product(ALPHABET, repeat=4)]
    rendered = sorted(set(rendered))
    for srng in streams:
        texts += ["".join(srng.choice(ALPHABET) for _ in range(srng.randint(4, 9))) for _ in range(1500)]
        # damaged well-formed programs: truncated anywhere, one character dropped, one hostile character inserted
        for src in srng.sample(rendered, min(len(rendered), 120)):
            for i in sorted(srng.sample(range(1, len(src)), min(len(src) - 1, 6))):
                texts.append(src[:i])
                texts.append(src[:i] + src[i + 1:])
                texts.append(src[:i] + srng.choice("()[]'\"\\$!&|\n") + src[i:])
    texts += [h + "\n" + h2 for h, h2 in itertools.product(HOSTILE[:60:3], HOSTILE[5:80:5])]
    seen, uniq = set(), []
    for t in texts:
        if t not in seen and "\x00" not in t[1:-1] or t in ("ls\x00ls",):
            seen.add(t)
            uniq.append(t)
    scns = []
    for i, t in enumerate(uniq):
        scns.append({"text": t, "mode": "exec" if i % 5 else "single"})
    return scns


def slim_equiv(t):
    sh = t["shape"]
    return {"shape": {"segs": [{k: s[k] for k in ("atoms", "pipe", "haspipe", "amp", "cont")} for s in sh["segs"]], "ops": sh["ops"],
                      "pos": {"semi": sh["pos"]["semi"], "comment": sh["pos"]["comment"], "blocks": sh["pos"]["blocks"]}},
            "steps": [{"cmd": "judge", "obs": {"same": t["steps"][0]["obs"]["same"], "flagsame": t["steps"][0]["obs"]["flagsame"]}}]}


def slim_term(t):
    return {"steps": t["steps"]}


def describe_equiv(trace, matched):
    o = trace["steps"][0]["obs"]
    msg = f"bare and explicit forms behave differently in mode {trace.get('mode', 'exec')} ({o['verdict']}; bare: {o['bare_err'] or 'parsed'}, explicit: {o['expl_err'] or 'parsed'})\n--- bare ---\n{trace['bare']}--- explicit ---\n{trace['explicit']}"
    if o.get("bare_run"):
        msg += f"--- bare run ---\n{json.dumps(o['bare_run'])[:600]}\n--- explicit run ---\n{json.dumps(o['expl_run'])[:600]}"
    return msg


def describe_term(trace, matched):
    steps = trace["steps"]
    how = steps[-1].get("how")
    if how in ("hang", "internal"):
        return f"parsing {trace['text'][:200]!r} (mode {trace['mode']}) ended with {how}: {trace['detail']} after {trace['nevents']} recovery iterations"
    st = steps[min(matched, len(steps) - 1)]
    nxt = steps[min(matched + 1, len(steps) - 1)]
    return f"recovery loop left the behaviours of Recovery while parsing {trace['text'][:200]!r}: after iteration {matched + 1} {st} no action leads to {nxt} (retry budget must fall by one per iteration, restart only greedily from the original input, at most one nested call)"


def run(tier, seed, replay=None):
    res = core.Result(PID, tier, seed)
    rng = random.Random(seed)
    gcfg = open(os.path.join(tlc.SPECS, "CmdGrammar.cfg" if tier == "thorough" else "CmdGrammar_quick.cfg")).read()
    rcfg = open(os.path.join(tlc.SPECS, "Recovery.cfg" if tier == "thorough" else "Recovery_quick.cfg")).read()
    import re

    # the trace configuration uses the code's own constants (10 extra retries, no bound on lines / columns)
    rtrace_cfg = re.sub(r"MaxLines = \d+", "MaxLines = 1000000", rcfg)
    rtrace_cfg = re.sub(r"MaxCol = \d+", "MaxCol = 10000000", rtrace_cfg)
    rtrace_cfg = re.sub(r"BudgetBase = \d+", "BudgetBase = 10", rtrace_cfg)
    mc1 = mc2 = {}
    if replay:
        payload = json.load(open(replay))["payload"]
        if "text" in payload["trace"]:
            shapes, texts = [], [{"text": payload["trace"]["text"], "mode": payload["trace"]["mode"]}]
        else:
            shapes, texts = [payload["trace"]["shape"]], []
    else:
        mc1 = tlc.model_check("CmdGrammar", cfg_text=gcfg, coverage=False, timeout=1200)
        mc2 = tlc.model_check("Recovery", cfg_text=rcfg, coverage=True, timeout=1800)
        # the iteration bound needs the observation variable `iters`: checked without the VIEW on a smaller instance
        mc3 = tlc.model_check("Recovery", cfg_file="Recovery_iters.cfg", coverage=False, timeout=1800)
        res.coverage["mc_bounded_iterations"] = {k: mc3.get(k) for k in ("states", "distinct")}
        if mc2.get("never_taken"):
            raise tlc.TLCError(f"vacuity: actions never taken in Recovery: {mc2['never_taken']}")
        selftest = {}
        r = tlc.model_check("Recovery", cfg_text=core.set_deviations(rcfg, ["Dev_NoBudgetDecrement"]), expect_ok=False, coverage=False, timeout=600)
        selftest["Dev_NoBudgetDecrement"] = r["errors"][:1]
        for dev in findings.open_deviations(PID):
            r = tlc.model_check("CmdGrammar", cfg_text=core.set_deviations(gcfg, [dev]), expect_ok=False, coverage=False, timeout=600)
            selftest[dev] = r["errors"][:1]
        res.coverage["deviation_selftest"] = selftest
        shapes = universe(tier, rng, core.streams(tier, seed))
        texts = None
    scns = [{"shape": s} for s in shapes]
    # one-line shapes (no block, no neighbouring lines) are also judged the way the interactive prompt
    # compiles them: mode "single"
    def one_line(s):
        p = s["pos"]
        return not p["blocks"] and not p["before"] and not p["after"] and not p["stmt_before"] and not p["stmt_after"]

    scns += [{"shape": s, "mode": "single"} for s in shapes if one_line(s)]
    out = pool.run("cmdwrap", scns, hooks=True, timeout=3000)
    bad_workers = [t for t in out if "steps" not in t]
    if bad_workers:
        raise tlc.TLCError("driver failure: " + json.dumps(bad_workers[0])[:3000])
    stats1 = core.validate_with_findings(res, "CmdGrammarTrace", out, gcfg, describe=describe_equiv, timeout=3000, project=slim_equiv) if out else {"validated": 0}
    if texts is None:
        texts = hostile_universe(tier, rng, [t["bare"] for t in out], core.streams(tier, seed))
    tout = pool.run("cmdwrap", texts, hooks=True, timeout=3000)
    bad_workers = [t for t in tout if "steps" not in t]
    if bad_workers:
        raise tlc.TLCError("driver failure: " + json.dumps(bad_workers[0])[:3000])
    skipped = sum(1 for t in tout if t.get("skipped"))
    tout = [t for t in tout if not t.get("skipped")]
    res.coverage["termination_cases_skipped_after_hangs"] = skipped
    stats2 = core.validate_with_findings(res, "RecoveryTrace", tout, rtrace_cfg, describe=describe_term, timeout=3000, project=slim_term) if tout else {"validated": 0}
    verdicts = {}
    for t in out:
        v = t["steps"][0]["obs"]["verdict"]
        verdicts[v] = verdicts.get(v, 0) + 1
    ends = {}
    for t in tout:
        h = t["steps"][-1]["how"]
        ends[h] = ends.get(h, 0) + 1
    cov = {
        "states": mc1.get("distinct", 0) + mc2.get("distinct", 0) or 1,
        "transitions": mc1.get("states", 0) + mc2.get("states", 0) or 1,
        "traces_validated_against_impl": stats1["validated"] + stats2["validated"],
        "samples": [{"bare": t["bare"], "explicit": t["explicit"], "verdict": t["steps"][0]["obs"]["verdict"]} for t in out[-3:]]
        + [{"text": t["text"], "iterations": t["nevents"], "end": t["steps"][-1]["how"]} for t in tout[-3:]],
        "evaluations": len(out) + len(tout),
        "distinct_nontrivial": len({t["bare"] for t in out if t["steps"][0]["obs"]["verdict"] != "same-error" and (len(t["shape"]["segs"]) > 1 or t["shape"]["pos"]["blocks"] or t["shape"]["pos"]["semi"] != "none")})
        + len({t["text"] for t in tout if t["nevents"] > 2}),
        "rule": "equivalence: one case = a shape (1-4 segments of a command word + atoms of 31 kinds, optional pipe / trailing &, chain operators and/or/&&/||, statement position: `;` neighbours, blocks of 9 kinds to depth 3, indentation unit, neighbouring statements, comment, backslash continuation) rendered bare and with every segment wrapped in ![...]; both go through the real three-phase parse; equal transformed trees = same, otherwise both are executed with recording aliases and run log / files / exception are compared; non-trivial = more than one segment or a non-top-level position, and not rejected in both forms. termination: one case = an arbitrary string (hostile pool, every string of length <= 3 (4 thorough) over a 21-symbol alphabet, damaged well-formed programs) parsed under the loop-head event point with an iteration cap and a wall-clock limit; non-trivial = more than two loop iterations",
        "equivalence_verdicts": verdicts,
        "termination_ends": ends,
        "max_iterations_seen": max((t["nevents"] for t in tout), default=0),
        "max_parse_wall_s": max((t["wall"] for t in tout), default=0),
        "trace_validation": {"CmdGrammarTrace": stats1, "RecoveryTrace": stats2},
        "mc": {"CmdGrammar": {k: mc1.get(k) for k in ("states", "distinct")}, "Recovery": {k: mc2.get(k) for k in ("states", "distinct", "depth", "coverage")}},
        "exhaustive": False,
    }
    cov.update(res.coverage)
    core.write_evidence(res, "model_checking", cov, assumptions=[
        "equal transformed trees (locations dropped) are taken as equal behaviour; unequal trees are decided by executing both sources with recording callable aliases",
        "command words c0..c3/cp/ci are callable aliases, never bound names",
        "hang = more than 5000 loop iterations or 30 s for one parse (pinned tree: at most 56 iterations, 0.5 s) (the model bounds the iterations by a function of the number of lines)",
        "input strings are UTF-8 encodable text and nest less deeply than the interpreter's recursion limit allows (CPython itself answers lone surrogates with UnicodeEncodeError and very deep expressions with RecursionError)",
    ])
    return core.finish(res)
