"""C19 - cached bytecode never changes what a script does (spec CodeCache)."""

from __future__ import annotations

import json
import os
import random

from harness import core, findings, pool, tlc

PID = "C19"
SPEC = "CodeCache"
ALL_ON = {"envScripts": True, "envAll": True, "scriptcache": True, "cacheall": True}


def S(cmd, a=0, b=0, c=0, **kw):
    return dict({"cmd": cmd, "a": a, "b": b, "c": c}, **kw)


PINNED = [
    [S("runscript"), S("tick"), S("editat", 1), S("runscript"), S("runscript"), S("tick"), S("touch"), S("runscript"), S("editat", 0), S("runscript")],
    [S("runscript"), S("damage", "trunc"), S("runscript"), S("damage", "xver"), S("runscript"), S("damage", "pyver"), S("runscript"), S("damage", "garbage"), S("runscript"), S("tick"), S("editat", 1), S("runscript")],
    # a version prepared earlier is installed after a cache hit happened in between
    [S("tick"), S("touch"), S("runscript"), S("tick"), S("tick"), S("runscript"), S("editat", 2), S("runscript")],
    # the link is re-pointed to another file that is older than the entry
    [S("tick"), S("tick"), S("runscript"), S("relink"), S("runscript"), S("relink"), S("runscript"), S("editat", 2), S("relink"), S("runscript"), S("relink"), S("runscript")],
    [S("runcode", "t1", "exec", True), S("runcode", "t1", "single", True), S("runcode", "t1", "exec", False), S("damagecode", "t1", "trunc", "exec"), S("runcode", "t1", "single", False), S("runcode", "t1", "single", False)],
]


def from_behaviours(behs):
    scns = []
    for b in behs:
        steps = []
        for s in b[1:]:
            a = s["act"]
            st = S(a["cmd"], a["a"], a["b"], a["c"])
            if a["cmd"] == "switch":
                st["sw"] = s["sw"]
            steps.append(st)
        scns.append({"sw": b[0]["sw"], "steps": steps})
    return scns


def describe(trace, matched):
    steps = trace["steps"]
    if matched >= len(steps):
        return "trace matched"
    st = steps[matched]
    return f"step {matched + 1} not allowed by CodeCache: switches={trace['sw']} ops={[(s['cmd'], s['a'], s['b'], s['c']) for s in steps[: matched + 1]]} observed={json.dumps(st['obs'])}"


def run(tier, seed, replay=None):
    res = core.Result(PID, tier, seed)
    cfg_text = open(os.path.join(tlc.SPECS, "CodeCache.cfg" if tier == "quick" else "CodeCache_thorough.cfg")).read()
    big_cfg = open(os.path.join(tlc.SPECS, "CodeCache_thorough.cfg")).read().replace("MaxClock = 2", "MaxClock = 4")
    mc = {}
    sweep = None
    if replay:
        payload = json.load(open(replay))["payload"]
        scns = [{"sw": payload["trace"]["sw"], "steps": payload["trace"]["steps"]}]
    else:
        mc = tlc.model_check(SPEC, cfg_text=cfg_text, coverage=True, timeout=3000)
        if mc.get("never_taken"):
            raise tlc.TLCError(f"vacuity: actions never taken in {SPEC}: {mc['never_taken']}")
        selftest = {}
        for dev in ("Dev_KeyIgnoresMode", "Dev_CacheIgnoresContext"):
            r = tlc.model_check(SPEC, cfg_text=core.set_deviations(cfg_text, [dev]), expect_ok=False, coverage=False, timeout=900)
            selftest[dev] = r["errors"][:1]
        res.coverage["deviation_selftest"] = selftest
        behs, sim = tlc.simulate_behaviours(SPEC, big_cfg, depth=16 if tier == "quick" else 26, num=1500 if tier == "quick" else 25000, seed=seed + 1, timeout=1800)
        scns = from_behaviours(behs)
        for sw in (ALL_ON, dict(ALL_ON, envAll=False, cacheall=False), dict(ALL_ON, envScripts=False, envAll=False)):
            for p in PINNED:
                scns.append({"sw": sw, "steps": p})
        scns.append({"truncsweep": True})
    traces = pool.run("codecache", scns, hooks=False)
    bad_workers = [t for t in traces if "steps" not in t]
    if bad_workers:
        raise tlc.TLCError("driver failure: " + json.dumps(bad_workers[0])[:3000])
    for t in traces:
        if "truncsweep" in t:
            sweep = t["truncsweep"]
    real = [t for t in traces if "truncsweep" not in t]
    stats = core.validate_with_findings(res, "CodeCacheTrace", real, big_cfg, describe=describe, timeout=3000)
    if sweep:
        for f in sweep["failures"]:
            res.violation(f"a damaged cache entry was executed or fatal: {f}", f)
    runs = sum(1 for t in real for s in t["steps"] if s["cmd"] in ("runscript", "runcode"))
    cov = {
        "states": mc.get("distinct", 1),
        "transitions": mc.get("states", 1),
        "traces_validated_against_impl": stats["validated"],
        "samples": [[(s["cmd"], s["a"], s["b"], s["c"], s["obs"]) for s in t["steps"]][:10] for t in real[:2]],
        "evaluations": runs + (sweep["lengths"] if sweep else 0),
        "runs": runs,
        "truncation_lengths_replayed": sweep["lengths"] if sweep else 0,
        "byte_substitutions_replayed": sweep.get("substitutions", 0) if sweep else 0,
        "distinct_nontrivial": len({json.dumps([t["sw"]] + [(s["cmd"], s["a"], s["b"], s["c"]) for s in t["steps"]]) for t in real
                                    if sum(1 for s in t["steps"] if s["cmd"] in ("runscript", "runcode")) >= 2}),
        "rule": "scenario = TLC -simulate behaviour of CodeCache (tick/edit/edit-with-older-mtime/touch/run/damage/switch histories on a script and run/damage histories on two code texts in both modes and binding contexts) + pinned histories under three switch settings, replayed with explicit mtimes; plus every truncation length of a real cache file; non-trivial = at least two runs; distinct by switches + operation sequence",
        "trace_validation": stats,
        "mc_action_coverage": mc.get("coverage"),
        "exhaustive": False,
    }
    cov.update(res.coverage)
    core.write_evidence(res, "model_checking", cov, assumptions=[
        "logical mtimes set with os.utime (1 tick = 100 s); the cache entry gets the tick at which it was written",
        "an edit that does not advance the source mtime past the entry (same tick, older timestamp) is outside the statement's invalidation contract: the stale run is allowed, not required",
    ])
    return core.finish(res)
