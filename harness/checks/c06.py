"""C06 - captured output is complete, ordered and exactly what the command wrote (spec Capture)."""

from __future__ import annotations

import itertools
import json
import os
import random

from harness import core, findings, pool, tlc

PID = "C06"
POINTS = ["pump.before_read", "pump.put", "pump.closed", "copier.tell", "copier.wrote", "copier.procexit", "copier.drained", "main.before_read", "main.read", "main.loop_ended", "main.waited", "proxy.returned", "proxy.before_close"]
SIZES = [0, 1, 1023, 1024, 1025, 2048, 4097, 65536, 65537, 150000]
KINDS = ["lines", "nofinalnl", "oneline", "crlf", "cr", "utf8", "binary", "ansi"]
FORMS = ["dollar", "object", "iter"]
STAGES = ["proc", "alias", "proc|cat", "alias|cat", "proc|falias", "proc|cat|cat"]
THREADING = ["thread", "unthread", "default"]


def universe(tier, rng, streams):
    scns = []

    def add(**kw):
        kw.setdefault("payload", "lines")
        kw.setdefault("form", "object")
        kw.setdefault("threading", "thread")
        kw.setdefault("stage", "proc")
        if kw["payload"] == "binary" and kw["form"] != "object":
            kw["form"] = "object"
        scns.append(kw)

    # U1: every payload kind x size x capture form on the threaded path, one chunking
    for k in KINDS:
        for size in SIZES:
            for form in FORMS:
                # (text views of multi-byte / CR payloads read in several pieces are cheap and decisive: never sampled away)
                add(payload=k, size=size, form=form, chunk=65536 if size > 5000 else 700, delay_ms=0, always=k in ("utf8", "crlf", "cr") and size in (1025, 2048, 65537))
    # U2: every stage composition x threading x form, payload straddling the read size, non-zero exit code
    for st in STAGES:
        for th in THREADING:
            for form in FORMS:
                if th == "unthread" and st.endswith("falias"):
                    continue  # an alias marked unthreadable is refused in a pipeline
                add(stage=st, threading=th, form=form, size=4097, chunk=1000, delay_ms=1, rc=3)
                add(stage=st, threading=th, form=form, size=65537, chunk=65536, rc=0)
    # U3: one delayed schedule point at a time (every point, two delays), on a payload written in many small chunks
    for pt in POINTS:
        for d in (0.003, 0.03):
            for form in ("object", "dollar"):
                add(size=12000, chunk=1000, delay_ms=2, form=form, delays={pt: d})
                add(size=12000, chunk=1000, delay_ms=2, form=form, delays={pt: d}, stage="alias", threading="default")
                add(size=12000, chunk=1000, delay_ms=2, form=form, delays={pt: d}, stage="proc|cat", threading="default")
    # writer exit timing and stderr noise
    for linger in (0, 30):
        for noise in (0, 1):
            for form in FORMS:
                add(size=5000, chunk=500, delay_ms=1, linger_ms=linger, err_noise=noise, form=form, rc=2)
    # U4: random combinations from the fixed streams: two delayed points, any payload / chunking / stage
    for srng in streams:
        for _ in range(60):
            pts = srng.sample(POINTS, 2)
            st, th = srng.choice(STAGES), srng.choice(THREADING)
            if th == "unthread" and st.endswith("falias"):
                th = "default"
            add(payload=srng.choice(KINDS), size=srng.choice([1024, 1025, 3000, 9000, 70000]), chunk=srng.choice([1, 7, 512, 1024, 4096, 65536]) if False else srng.choice([97, 512, 1024, 4096, 65536]),
                delay_ms=srng.choice([0, 1, 3]), form=srng.choice(FORMS), stage=st, threading=th, rc=srng.choice([0, 0, 1, 7]),
                delays={pts[0]: srng.choice([0.002, 0.01, 0.03]), pts[1]: srng.choice([0.002, 0.01, 0.03])}, linger_ms=srng.choice([0, 0, 20]))
    # U5: the final stage is an alias that produces its output by running commands itself - a callable
    # wrapping a nested command, a string alias holding an `&&` chain - under every capture form
    for st in ("nalias", "salias"):
        for form in FORMS + ["inject"]:
            for size, chunk in ((700, 700), (4097, 1000), (70000, 65536)):
                add(stage=st, threading="default", form=form, size=size, chunk=chunk, rc=0 if form == "inject" else 3, always=True)
    # U6: piece boundaries inside a multi-byte character and between the CR and LF of a CRLF, made
    # deterministic: 97-byte writes with a pause (97 is coprime to the 15- and 17-byte line lengths of the
    # payloads, so every offset inside a line becomes a boundary), and an alias writing in bulk that is read
    # back in 1024-byte pieces
    for k in ("utf8", "crlf", "cr"):
        for st, chunk, delay in (("proc", 97, 2), ("alias", 65536, 0), ("alias", 97, 1)):
            for form in FORMS:
                add(payload=k, size=4097, stage=st, chunk=chunk, delay_ms=delay, form=form, threading="thread" if st == "proc" else "default", always=True)
    if tier == "quick":
        keep = []
        for i, s in enumerate(scns):
            if s.get("delays") or s.get("always") or (i + rng.randrange(3)) % 3 == 0:
                keep.append(s)
        scns = keep
    return scns


def describe(trace, matched):
    if "tsteps" in trace:
        ev = trace["tsteps"]
        st = ev[min(matched, len(ev) - 1)]
        return f"capture path left the behaviours of Capture while running `{trace['cmd']}` ({json.dumps(trace['scn'])[:200]}): event {matched + 1} {st} is not allowed (bytes conserved pipe -> queue -> buffer -> caller, append never interleaved, saved file position never moves back, drained only when everything put was written)"
    return "?"


def describe_obs(t, matched):
    o = t["obs"]
    return f"captured value differs from what the final stage wrote: `{t['cmd']}` {json.dumps(t['scn'])[:300]} -> {o['kind']} {o.get('detail', '')} {json.dumps(o['problems'])[:700]}"


def slim(t):
    return {"steps": t["tsteps"], "alias": bool(t.get("alias"))}


def run(tier, seed, replay=None):
    res = core.Result(PID, tier, seed)
    rng = random.Random(seed)
    cfg_text = open(os.path.join(tlc.SPECS, "Capture.cfg")).read()
    mc = {}
    if replay:
        payload = json.load(open(replay))["payload"]
        scns = [payload["trace"]["scn"]] * 5
    else:
        mc = tlc.model_check("Capture", cfg_text=cfg_text if tier == "quick" else cfg_text.replace("N = 4", "N = 5"), coverage=True, timeout=1800)
        if mc.get("never_taken"):
            raise tlc.TLCError(f"vacuity: actions never taken in Capture: {mc['never_taken']}")
        r = tlc.model_check("Capture", cfg_text=core.set_deviations(cfg_text, ["Dev_UnlockedRead"]), expect_ok=False, coverage=False, timeout=600)
        r2 = tlc.model_check("Capture", cfg_text=cfg_text.replace("FROrder <- CodeOrder", "FROrder <- EmptyFirst"), expect_ok=False, coverage=False, timeout=600)
        res.coverage["deviation_selftest"] = {"Dev_UnlockedRead": r["errors"][:1], "FROrder=EmptyFirst": r2["errors"][:1]}
        scns = universe(tier, rng, core.streams(tier, seed))
    if not replay:
        scns = scns + [{"flags": list(f)} for f in itertools.product((True, False), repeat=3)]
    out = pool.run("capture", scns, hooks=True, timeout=1200, nproc=8)
    never = 0
    for t, sc in zip(out, scns):
        if t.get("worker_failed"):
            # the worker was ended by its watchdog (or died) in this scenario: a capture that never returned
            if t.get("first_missing") and "flags" not in sc:
                never += 1
                res.violation(f"capture never returned (worker ended by the watchdog): {json.dumps(sc)[:400]}", {"trace": {"scn": sc}})
    res.coverage["captures_that_never_returned"] = never
    out = [t for t in out if not t.get("worker_failed")]
    bad_workers = [t for t in out if "steps" not in t]
    if bad_workers:
        raise tlc.TLCError("driver failure: " + json.dumps(bad_workers[0])[:3000])
    # the property's own observable, judged by Capture!ObsJudge
    otraces = []
    order_runs = [t for t in out if t.get("order")]
    res.coverage["captures_skipped_after_hangs"] = sum(1 for t in out if t.get("skipped"))
    out = [t for t in out if not t.get("order") and not t.get("skipped")]
    for t in out:
        o = t["steps"][0]["obs"]
        s = t["scn"]
        whats = {p["what"] for p in o["problems"]}
        rawok = o["kind"] in ("ok", "differs") and not (whats & {".raw_out", ".rtn", "echoed to the terminal"})
        view = {"dollar": "dollar", "inject": "dollar", "object": "out", "iter": "iter"}[s["form"]]
        otraces.append({"scn": s, "cmd": t["cmd"], "obs": o, "feat": {"payload": s["payload"], "size": s["size"], "view": view, "multiread": bool(s["size"] > 1024 or s.get("chunk", 65536) < s["size"])},
                        "steps": [{"cmd": "capture", "obs": {"ok": bool(o["ok"]), "rawok": bool(rawok)}}]})
    ocfg = "SPECIFICATION Spec\nCONSTANTS\n  N = 1\n  PipeCap = 1\n  ReadMax = 1\n  Hint = 1\n  FROrder <- CodeOrder\n  Deviations = {}\n"
    ostats = core.validate_with_findings(res, "CaptureObsTrace", otraces, ocfg, describe=describe_obs, timeout=3000, project=lambda t: {"feat": t["feat"], "steps": t["steps"]})
    # recorded schedule-point events of threaded single-stage runs against CaptureTrace
    traces = []
    for t in out:
        s = t["scn"]
        evs = [e for e in t["events"] if e["ev"] != "recovery.iter"]
        if s.get("stage", "proc") == "proc" and not s.get("err_noise") and any(e["ev"] == "copier.tell" for e in evs) and t["nevents"] < 3900:
            steps = [{"ev": e["ev"], "fd": int(e.get("fd", 0)), "n": int(e.get("n", 0)), "pos": int(e.get("pos", 0)), "flag": ""} for e in evs]
            traces.append({"scn": s, "cmd": t["cmd"], "tsteps": steps, "steps": steps, "alias": False})
        elif s.get("stage") == "alias" and s.get("threading", "default") in ("default", "thread") and any(e["ev"] == "proxy.before_close" for e in evs) and t["nevents"] < 3900:
            # a callable alias as the only stage: pump / proxy / reader events
            steps = [{"ev": e["ev"], "fd": int(e.get("fd", 0)), "n": int(e.get("n", 0)), "pos": int(e.get("pos", 0)), "flag": ""} for e in evs if not e["ev"].startswith("copier.")]
            traces.append({"scn": s, "cmd": t["cmd"], "tsteps": steps, "steps": steps, "alias": True})
    # the order of the three reads of the real "fully read?" (every combination of flag values)
    for t in order_runs:
        if t.get("order"):
            traces.append({"alias": False, "scn": t["scn"], "cmd": "QueueReader.is_fully_read() on an instrumented reader", "tsteps": [dict(ev=e["ev"], flag=e["flag"], fd=0, n=0, pos=0) for e in t["steps"]], "steps": t["steps"]})
    tcfg = "SPECIFICATION TSpec\nCONSTANTS\n  Deviations = {}\n"
    stats = core.validate_with_findings(res, "CaptureTrace", traces, tcfg, describe=describe, timeout=3000, project=slim) if traces else {"validated": 0}
    kinds = {}
    for t in out:
        k = t["steps"][0]["obs"]["kind"]
        kinds[k] = kinds.get(k, 0) + 1
    cov = {
        "states": mc.get("distinct", 1),
        "transitions": mc.get("states", 1),
        "traces_validated_against_impl": stats["validated"],
        "samples": [{"cmd": t["cmd"].replace(tlc.scratch_root(), "<scratch>")[-160:], "scn": t["scn"], "outcome": t["steps"][0]["obs"]["kind"], "events": t["nevents"]} for t in out[-3:]],
        "evaluations": len(out),
        "distinct_nontrivial": len({json.dumps(t["scn"], sort_keys=True) for t in out if t["scn"].get("size", 0) > 1024 and (t["scn"].get("delays") or "|" in t["scn"].get("stage", ""))}),
        "rule": "one case = one real captured command: final stage = external writer process / callable alias / writer piped through cat or an alias filter (1-3 stages) / an alias that runs commands itself (callable wrapper, string alias holding a chain), on the threaded, unthreaded or default path, captured with $(), !().out/.raw_out/.rtn or iteration; payload kind (lines, no final newline, one line, CRLF, lone CRs, 2-4-byte UTF-8, binary, ANSI escapes) x size (0 .. 150000 bytes around the 1024-byte read size and the 64 KiB pipe buffer) x write chunking / inter-chunk delay / exit code / exit timing / stderr noise, while one or two of the 13 schedule points of the capture path are delayed by 2-30 ms (fixed streams); the value the caller receives is compared byte for byte with what the final stage was told to write (text views: decoded, CR/CRLF -> LF, escapes stripped, one-line $() without its newline), the exit code with the final stage's, and a pipe standing in for the terminal must stay empty; non-trivial = more than one read size of data with a delayed point or more than one stage",
        "outcomes": kinds,
        "max_wall_s": max((t["wall"] for t in out), default=0),
        "trace_validation": {"CaptureTrace": stats, "CaptureObsTrace": ostats},
        "mc_action_coverage": mc.get("coverage"),
        "exhaustive": False,
    }
    cov.update(res.coverage)
    core.write_evidence(res, "model_checking", cov, assumptions=[
        "schedules are perturbed by delays at the schedule points, not fully controlled: the design is decided by TLC on Capture for all interleavings, the code by the observable under the perturbed schedules and by validating the recorded events against CaptureTrace",
        "hang = 30 s for one capture (the pinned tree needs at most about 3 s)",
        "grand-children holding a pipe open and Windows console capture are out of scope",
    ])
    return core.finish(res)
