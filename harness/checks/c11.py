"""C11 - scoped environment changes are exactly undone and never leak across threads (spec EnvLayers)."""

from __future__ import annotations

import json
import os
import random

from harness import core, findings, pool, tlc

PID = "C11"
SPEC = "EnvLayers"
KEYS3 = ["VG", "VD", "VU"]


def E():
    return {k: "-" for k in KEYS3}


def M(**kw):
    return dict(E(), **kw)


def enter(t, m=None, o=None):
    return {"cmd": "enter", "t": t, "m": m or E(), "o": o or E(), "withOvl": o is not None}


def ex(t, exc=False):
    return {"cmd": "exit", "t": t, "v": exc if isinstance(exc, str) else ("exc" if exc else "")}


PINNED = [
    [enter("main", M(VD="s1")), {"cmd": "detype", "t": "main"}, {"cmd": "detype", "t": "w"}, ex("main"), {"cmd": "detype", "t": "main"}],
    [enter("w", M(VG="DEL"), M(VU="o1")), {"cmd": "set", "t": "main", "k": "VG", "v": "v2"}, ex("w", True), {"cmd": "detype", "t": "w"}],
    [enter("main", M(VU="s1")), {"cmd": "del", "t": "main", "k": "VU"}, ex("main")],
    [enter("main", M(VG="s1")), enter("main", M(VG="DEL")), enter("main", E(), M(VG="o1")), ex("main"), ex("main", True), ex("main"), {"cmd": "set", "t": "w", "k": "VG", "v": "v2"}, {"cmd": "detype", "t": "main"}],
    [enter("main", M(VG="s1"), M(VU="o1")), enter("main", M(VD="DEL")), ex("main", "sysexit"), ex("main", "sysexit"), {"cmd": "detype", "t": "main"}],
    [enter("main", M(VG="s1")), {"cmd": "inherit", "t": "w", "v": "main"}, {"cmd": "respawn", "t": "w"}, {"cmd": "detype", "t": "w"}, ex("main")],
    [enter("w", M(VU="s1")), ex("w"), enter("main", M(VG="s1")), {"cmd": "inherit", "t": "w", "v": "main"}, ex("main"), {"cmd": "respawn", "t": "w"}, {"cmd": "set", "t": "w", "k": "VG", "v": "v2"}, {"cmd": "detype", "t": "main"}],
    [enter("main", M(VG="s1")), {"cmd": "inherit", "t": "w", "v": "main"}, ex("main"), {"cmd": "detype", "t": "w"}, {"cmd": "drop", "t": "w"}, {"cmd": "detype", "t": "w"}],
]


def from_behaviours(behs, keys):
    scns = []
    for b in behs:
        steps = []
        for s in b[1:]:
            a = s["act"]
            st = {"cmd": a["cmd"], "t": a["t"], "k": a["k"], "v": a["v"], "m": a["m"], "o": a["o"], "withOvl": False}
            if a["cmd"] == "enter":
                # an overlay-carrying enter is recognisable by the scope record of the state
                sc = s["scopes"][a["t"]]
                st["withOvl"] = bool(sc[-1]["withOvl"])
            steps.append(st)
        scns.append({"keys": keys, "steps": steps})
    return scns


def describe(trace, matched):
    steps = trace["steps"]
    if matched >= len(steps):
        return "trace matched"
    st = steps[matched]

    def short(s):
        m = {k: v for k, v in s["m"].items() if v != "-"}
        o = {k: v for k, v in s["o"].items() if v != "-"}
        return f"{s['cmd']}@{s['t']}({s['k']},{s['v']},{m},{'ovl=' + str(o) if s['withOvl'] else ''})"

    return f"step {matched + 1} not allowed by EnvLayers: ops={' ; '.join(short(s) for s in steps[: matched + 1])} observed={json.dumps(st['obs'])}"


def run(tier, seed, replay=None):
    res = core.Result(PID, tier, seed)
    cfg_text = open(os.path.join(tlc.SPECS, "EnvLayers.cfg")).read()
    big_cfg = open(os.path.join(tlc.SPECS, "EnvLayers_big.cfg")).read()
    mc = {}
    if replay:
        payload = json.load(open(replay))["payload"]
        scns = [{"keys": payload["trace"]["keys"], "steps": payload["trace"]["steps"]}]
    else:
        mc = tlc.model_check(SPEC, cfg_text=cfg_text if tier == "quick" else cfg_text.replace("MaxLevel = 6", "MaxLevel = 7"), coverage=True, timeout=3000)
        if mc.get("never_taken"):
            raise tlc.TLCError(f"vacuity: actions never taken in {SPEC}: {mc['never_taken']}")
        selftest = {}
        for dev in ("Dev_RestoreWritesLocal", "Dev_SharedDetypeCache"):
            r = tlc.model_check(SPEC, cfg_text=core.set_deviations(cfg_text, [dev]), expect_ok=False, coverage=False, timeout=900)
            selftest[dev] = r["errors"][:1]
        res.coverage["deviation_selftest"] = selftest
        behs, sim = tlc.simulate_behaviours(SPEC, big_cfg, depth=14 if tier == "quick" else 22, num=2500 if tier == "quick" else 40000, seed=seed + 1, timeout=1800)
        if sim["errors"]:
            raise tlc.TLCError("the design violates a property in simulation: " + str(sim["errors"][:2]))
        scns = from_behaviours(behs, KEYS3)
        for p in PINNED:
            scns.append({"keys": KEYS3, "steps": [dict({"k": "", "v": "", "m": E(), "o": E(), "withOvl": False}, **s) for s in p]})
    traces = pool.run("envlayers", scns, hooks=False)
    bad_workers = [t for t in traces if "steps" not in t]
    if bad_workers:
        raise tlc.TLCError("driver failure: " + json.dumps(bad_workers[0])[:3000])
    stats = core.validate_with_findings(res, "EnvLayersTrace", traces, big_cfg, describe=describe, timeout=3000)
    nested = len({json.dumps([(s["cmd"], s["t"], s["k"], s["v"], s["m"], s["o"]) for s in t["steps"]]) for t in traces
                  if sum(1 for s in t["steps"] if s["cmd"] == "exit") >= 1})
    cov = {
        "states": mc.get("distinct", 1),
        "transitions": mc.get("states", 1),
        "traces_validated_against_impl": stats["validated"],
        "samples": [[(s["cmd"], s["t"], s["k"], s["v"], {k: v for k, v in s["m"].items() if v != "-"}) for s in t["steps"]] for t in traces[:2]],
        "evaluations": sum(len(t["steps"]) for t in traces),
        "distinct_nontrivial": nested,
        "rule": "scenario = TLC -simulate behaviour of EnvLayers (swap/overlay/mask/set/del/detype/inherit operations of two threads, nesting <= 3, keys global/default-only/unknown) + pinned witnesses, executed on a real Env with a commanded worker thread; non-trivial = at least one scope is left; distinct by operation sequence",
        "trace_validation": stats,
        "mc_action_coverage": mc.get("coverage"),
        "exhaustive": False,
    }
    cov.update(res.coverage)
    core.write_evidence(res, "model_checking", cov, assumptions=[
        "interleaving at operation granularity (one Env operation at a time); races inside one operation are not modelled",
        "standalone Env with one registered default-only variable; UPDATE_OS_ENVIRON off",
    ])
    return core.finish(res)
