"""C10 - the typed environment survives the trip to child processes and back (spec EnvDetype)."""

from __future__ import annotations

import json
import os
import random

from harness import core, findings, pool, tlc, tour

PID = "C10"
SPEC = "EnvDetype"


def describe(trace, matched):
    steps = trace["steps"]
    if matched >= len(steps):
        return "trace matched"
    st = steps[matched]
    return f"step {matched + 1} not allowed by EnvDetype: ops={[(s['cmd'], s['k'], s['v']) for s in steps[: matched + 1]]} observed={json.dumps(st['obs'])}"


PINNED = [
    [{"cmd": "readref"}, {"cmd": "launch", "k": "", "v": 0}, {"cmd": "mutheld"}, {"cmd": "launch", "k": "", "v": 0}, {"cmd": "mutheld"}, {"cmd": "launch", "k": "S", "v": 1}, {"cmd": "launch", "k": "", "v": 0}],
    [{"cmd": "set", "k": "B", "v": 1}, {"cmd": "launch", "k": "B", "v": 9}, {"cmd": "launch", "k": "", "v": 0}, {"cmd": "launch", "k": "B", "v": 0}, {"cmd": "del", "k": "B"}, {"cmd": "launch", "k": "", "v": 0}],
]


def run(tier, seed, replay=None):
    res = core.Result(PID, tier, seed)
    rng = random.Random(seed)
    cfg_text = open(os.path.join(tlc.SPECS, "EnvDetype.cfg")).read()
    mc = {}
    sweep = None
    if replay:
        payload = json.load(open(replay))["payload"]
        scns = [{"steps": payload["trace"]["steps"]}]
    else:
        mc = tlc.model_check(SPEC, cfg_text=cfg_text, coverage=True, timeout=600)
        if mc.get("never_taken"):
            raise tlc.TLCError(f"vacuity: actions never taken in {SPEC}: {mc['never_taken']}")
        r = tlc.model_check(SPEC, cfg_text=core.set_deviations(cfg_text, ["Dev_StaleAfterHeldMutation"]), expect_ok=False, coverage=False, timeout=600)
        res.coverage["deviation_selftest"] = {"Dev_StaleAfterHeldMutation": r["errors"][:1]}
        inits, edges, states, _ = tlc.dump_edges(SPEC, cfg_text, timeout=600)
        tours = tour.plan(inits, edges, max_len=40, rng=rng, edge_limit=None if tier == "thorough" else 1800)
        covered = set()
        scns = []
        for init, steps in tours:
            covered.update(steps)
            # two out of three launches observe only the mapping built for the child
            scns.append({"steps": [dict(edges[i][1][0], real=(rng.random() < 0.34)) if edges[i][1][0]["cmd"] == "launch" else edges[i][1][0] for i in steps]})
        res.coverage["graph_edges"] = len(edges)
        res.coverage["graph_states"] = len(states)
        res.coverage["edges_in_tours"] = len(covered)
        scns += [{"steps": [dict({"k": "", "v": 0}, **s) for s in p]} for p in PINNED]
        scns += [{"steps": [dict({"k": "", "v": 0, "real": False}, **s) for s in p]} for p in PINNED]
        scns.append({"sweep": True})
    traces = pool.run("envdetype", scns, hooks=False)
    bad_workers = [t for t in traces if "steps" not in t]
    if bad_workers:
        raise tlc.TLCError("driver failure: " + json.dumps(bad_workers[0])[:3000])
    for t in traces:
        if "sweep" in t:
            sweep = t["sweep"]
    real = [t for t in traces if "sweep" not in t]
    stats = core.validate_with_findings(res, "EnvDetypeTrace", real, cfg_text, describe=describe, timeout=3000)
    if sweep is not None:
        sigs = findings.open_signatures(PID)
        for f in sweep["failures"]:
            if f["signature"] in sigs:
                res.known_finding(sigs[f["signature"]]["id"])
            else:
                res.violation(f"round trip convert(detype(v)) != v for ${f['var']}: value={f['value']} string={f['string']} back={f['back']}", f)
    launches = sum(1 for t in real for s in t["steps"] if s["cmd"] == "launch")
    cov = {
        "states": mc.get("distinct", 1),
        "transitions": mc.get("states", 1),
        "traces_validated_against_impl": stats["validated"],
        "samples": [[(s["cmd"], s["k"], s["v"], s["obs"].get("child")) for s in t["steps"]][:10] for t in real[:2]],
        "evaluations": launches + (sweep["pairs"] if sweep else 0),
        "real_child_launches": launches,
        "roundtrip_pairs": sweep["pairs"] if sweep else 0,
        "roundtrip_by_kind": sweep["by_kind"] if sweep else {},
        "distinct_nontrivial": len({json.dumps([(s["cmd"], s["k"], s["v"]) for s in t["steps"]]) for t in real if any(s["cmd"] in ("mutheld", "mutenv", "set") for s in t["steps"])}),
        "rule": "scenario = transition tour over the EnvDetype state graph (set/del/in-place mutation through the env and through a held reference/launch with and without a per-command prefix or mask); each launch is a real `env -0` child whose mapping is also fed to a fresh Env; plus convert(detype(v)) for every registered variable x pool values; non-trivial = contains a mutation or assignment; distinct by operation sequence",
        "trace_validation": stats,
        "mc_action_coverage": mc.get("coverage"),
        "exhaustive": bool(tier == "thorough" and not replay and res.coverage.get("edges_in_tours") == res.coverage.get("graph_edges")),
    }
    cov.update(res.coverage)
    core.write_evidence(res, "model_checking", cov, assumptions=[
        "variables under test: $MULTILINE_PROMPT (str), $VI_MODE (bool), $CDPATH (path list); values are versions decoded from the child's strings",
        "each launch is observed twice: the mapping SubprocSpec.prep_env_subproc builds (cache-served) and the environment of a real child started through the whole command path",
    ])
    return core.finish(res)
