"""C01 - every valid Python program parses to CPython's syntax tree (spec PyGrammar)."""

from __future__ import annotations

import json
import os
import random
import subprocess

from harness import pycorpus, core, findings, pool, pygrammar, tlc

PID = "C01"
P = pygrammar.all_prods()
SLOTKIND = {"E": "expr", "E2": "expr", "T": "target", "B": "block", "BB": "block"}
L, R_ = "«", "»"


def slots_of(name):
    t = P[name][1]
    return [s for s in ("E", "E2", "T", "B", "BB") if L + s + R_ in t]


def fits(slot, child):
    k = P[child][0]
    want = SLOTKIND[slot]
    return k == want or (want == "block" and k in ("stmt", "compound"))


def indent(text, n):
    return "\n".join(("    " * n + ln) if ln else ln for ln in text.split("\n"))


def fill(name, slot=None, child=None, grand=None):
    """Text of production `name` with `slot` filled by `child` (whose first slot may hold `grand`)."""
    t = P[name][1]
    # block slots that are not filled by a child get *distinct* bodies (`_b1 = 1`, `_b2 = 2` ...): a parser
    # that attaches the else suite where the finally suite belongs must not go unnoticed
    for s in ("B", "BB"):
        tok = L + s + R_
        k = 0
        while tok in t and not (s == slot and child is not None and k == 0):
            k += 1
            body = ("    " if s == "B" else "        ") + f"_b{k} = {k}"
            # the first occurrence is kept for the child when this slot is being filled
            t = t.replace(tok, body, 1)
        if s == slot and child is not None and tok in t:
            # first occurrence -> child (handled below); the others -> distinct defaults
            head, sep, rest = t.partition(tok)
            k = 1
            while tok in rest:
                k += 1
                rest = rest.replace(tok, ("    " if s == "B" else "        ") + f"_b{k} = {k}", 1)
            t = head + sep + rest
    for s in ("E2", "E", "T", "BB", "B"):
        tok = L + s + R_
        if tok not in t:
            continue
        if s == slot and child is not None:
            gslot = slots_of(child)[0] if (grand and slots_of(child)) else None
            if gslot and not fits(gslot, grand):
                gslot = None
            sub = fill(child, gslot, grand if gslot else None)
            if s in ("B", "BB"):
                sub = indent(sub, 1 if s == "B" else 2)
        else:
            sub = {"E": "a", "E2": "b", "T": "x", "B": "    pass", "BB": "        pass"}[s]
        t = t.replace(tok, sub)
    return t


def wheres(*names):
    return {P[n][2] for n in names if n and P[n][2]}


def wrap(text, where):
    """Enclosing context so that `return`, `await`, `break`, `nonlocal` ... are grammatical."""
    depth = 0
    pre = []
    if "nested" in where:
        pre += ["def _o():", "    n1 = 0", "    def _w():"] if "async" not in where else ["def _o():", "    n1 = 0", "    async def _w():"]
        depth = 2
    elif "async" in where:
        pre += ["async def _w():"]
        depth = 1
    elif "def" in where:
        pre += ["def _w():"]
        depth = 1
    if "loop" in where:
        pre += ["    " * depth + "while 1:"]
        depth += 1
    return "\n".join(pre + [indent(text, depth)]) if pre else text


def layout(src, kind, rng=None):
    body = src
    if kind == "plain":
        return body + "\n"
    if kind == "no_final_newline":
        return body
    if kind == "crlf":
        return body.replace("\n", "\r\n") + "\r\n"
    if kind == "tab_indent":
        return "\n".join(ln.replace("    ", "\t") if ln.startswith("    ") else ln for ln in body.split("\n")) + "\n"
    if kind == "two_space_indent":
        return "\n".join((" " * ((len(ln) - len(ln.lstrip(" "))) // 2) + ln.lstrip(" ")) if ln.startswith("    ") else ln for ln in body.split("\n")) + "\n"
    if kind == "eight_space_indent":
        return "\n".join((" " * ((len(ln) - len(ln.lstrip(" "))) * 2) + ln.lstrip(" ")) if ln.startswith("    ") else ln for ln in body.split("\n")) + "\n"
    if kind == "trailing_comment":
        lines = body.split("\n")
        lines[0] += "  # note: a >= b"
        return "\n".join(lines) + "\n# end\n"
    if kind == "leading_comment":
        return "#!/usr/bin/env python\n# -*- coding: utf-8 -*-\n\n" + body + "\n"
    if kind == "blank_lines":
        return "\n\n" + body.replace("\n", "\n\n") + "\n\n\n" if "'''" not in body and '"""' not in body and "\\\n" not in body and "(\n" not in body else "\n\n" + body + "\n\n\n"
    if kind == "trailing_spaces":
        return "\n".join(ln + "  " for ln in body.split("\n")) + "\n" if "'''" not in body and '"""' not in body and "\\" not in body else body + "  \n"
    if kind == "paren_continuation":
        return "_v = (\n    " + body + "\n)\n" if "\n" not in body else body + "\n"
    if kind == "backslash_continuation":
        # break the first line after its first blank outside quotes (only when there are no quotes at all)
        first = body.split("\n")[0]
        if "'" in first or '"' in first or "#" in first or " " not in first.strip():
            return body + "\n"
        i = first.index(" ", len(first) - len(first.lstrip()))
        return first[:i] + " \\\n    " + first[i + 1:] + body[len(first):] + "\n"
    if kind == "form_feed":
        return "\x0c" + body + "\n"
    if kind == "col0_operator":
        # a boolean / comparison operator as the first token, at column 0, of a continuation line in brackets
        if "\n" in body or "'" in body or '"' in body or "#" in body:
            return body + "\n"
        for op in (" and ", " or ", " not in ", " is not ", " if ", " else ", " in ", " is "):
            if op in body:
                return "_v = (" + body.replace(op, "\n" + op.strip() + " ", 1) + ")\n" if "=" not in body and ":" not in body else body + "\n"
        return body + "\n"
    if kind == "semicolon_end":
        return body + ";\n" if "\n" not in body and not body.rstrip().endswith(":") else body + "\n"
    raise ValueError(kind)


def scenario(root, slot="", child="", grand="", lay="plain", mode="exec"):
    text = fill(root, slot or None, child or None, grand or None)
    if P[root][0] == "target":
        text = text + " = a"
    src = wrap(text, wheres(root, child, grand)) if mode == "exec" else text
    text = layout(src, lay)
    if mode != "eval" and not text.endswith("\n"):
        text += "\n"  # what Execer does before it calls the parser in exec and single mode
    return {"src": text, "mode": mode, "deriv": {"root": root, "slot": slot, "child": child, "grand": grand, "layout": lay, "mode": mode}}


def universe(tier, rng, streams):
    scns = []
    names = list(P)
    # U1: every production alone, every mode that applies, every layout
    for n in names:
        kind = P[n][0]
        for lay in pygrammar.LAYOUTS:
            scns.append(scenario(n, lay=lay))
        if kind == "expr" and not P[n][2]:
            scns.append(scenario(n, mode="eval", lay="no_final_newline"))
            scns.append(scenario(n, mode="eval"))
            scns.append(scenario(n, mode="single"))
        if kind in ("stmt", "target") and not P[n][2]:
            scns.append(scenario(n, mode="single"))
    # U2: every (parent, slot, child) nesting (the quick tier: a seeded eighth of them)
    u2 = []
    for n in names:
        for s in slots_of(n):
            for c in names:
                if fits(s, c):
                    u2.append((n, s, c))
    if tier == "quick":
        u2 = rng.sample(u2, len(u2) // 8)
    for n, s, c in u2:
        scns.append(scenario(n, s, c))
        if P[n][0] == "expr" and not wheres(n, c) and (len(n) + len(c)) % 5 == 0:
            scns.append(scenario(n, s, c, mode="eval", lay="no_final_newline"))
    # U3: depth 3 x layouts, from the fixed random streams
    for srng in streams:
        for _ in range(4000):
            n = srng.choice(names)
            ss = slots_of(n)
            if not ss:
                continue
            s = srng.choice(ss)
            c = srng.choice([c for c in names if fits(s, c)])
            cs = slots_of(c)
            g = srng.choice([g for g in names if fits(cs[0], g)]) if cs else ""
            scns.append(scenario(n, s, c, g, lay=srng.choice(pygrammar.LAYOUTS)))
    # U4: the corpus - statements and embedded programs of CPython's own syntax tests (harness/pycorpus.py)
    corpus = pycorpus.load()
    for k, text, origin in corpus:
        scns.append({"src": text, "mode": "exec", "origin": origin, "deriv": {"root": "Corpus", "slot": "", "child": "", "grand": "", "layout": k, "mode": "exec"}})
    seen, uniq = set(), []
    for s in scns:
        k = (s["src"], s["mode"])
        if k not in seen:
            seen.add(k)
            uniq.append(s)
    return uniq


def first_slot(name):
    ss = slots_of(name) if name else []
    return ss[0] if ss else ""


def explanations(d, known):
    """The listed findings (ids) that explain a failing derivation - mirrors Explained in PyGrammar.tla."""
    out = []
    for role in ("root", "child", "grand"):
        n = d[role]
        if n and n in known["prods"]:
            out.append("C01-prod-" + n)
        if n and (n, d["layout"], d["mode"]) in known["layouts"]:
            out.append(f"C01-layout-{n}-{d['layout']}-{d['mode']}")
    if d["slot"] and (d["root"], d["slot"], d["child"]) in known["pairs"]:
        out.append(f"C01-pair-{d['root']}-{d['slot']}-{d['child']}")
    if d["grand"] and (d["child"], first_slot(d["child"]), d["grand"]) in known["pairs"]:
        out.append(f"C01-pair-{d['child']}-{first_slot(d['child'])}-{d['grand']}")
    if d["grand"] and (d["root"], d["slot"], d["child"], d["grand"], d["layout"]) in known["triples"]:
        out.append(f"C01-triple-{d['root']}-{d['slot']}-{d['child']}-{d['grand']}-{d['layout']}")
    return out


def load_known():
    path = os.path.join(tlc.VERIF, "known_findings_c01.json")
    known = {"prods": set(), "pairs": set(), "layouts": set(), "triples": set(), "entries": {}}
    if os.path.exists(path):
        for f in json.load(open(path))["findings"]:
            if f["status"] != "open":
                continue
            known["entries"][f["id"]] = f
            k = f["key"]
            if k["type"] == "prod":
                known["prods"].add(k["prod"])
            elif k["type"] == "layout":
                known["layouts"].add((k["prod"], k["layout"], k["mode"]))
            elif k["type"] == "pair":
                known["pairs"].add((k["root"], k["slot"], k["child"]))
            elif k["type"] == "triple":
                known["triples"].add((k["root"], k["slot"], k["child"], k["grand"], k["layout"]))
    return known


def known_module(known):
    def q(x):
        return '"%s"' % x

    def tup(t):
        return "<<" + ", ".join(q(x) for x in t) + ">>"

    lines = ["--------------------------- MODULE PyGrammarKnown ---------------------------",
             "(* GENERATED at check time from the committed known_findings_c01.json (open entries only). *)",
             "KnownProds == {" + ", ".join(q(x) for x in sorted(known["prods"])) + "}",
             "KnownLayouts == {" + ", ".join(tup(t) for t in sorted(known["layouts"])) + "}",
             "KnownPairs == {" + ", ".join(tup(t) for t in sorted(known["pairs"])) + "}",
             "KnownTriples == {" + ", ".join(tup(t) for t in sorted(known["triples"])) + "}",
             "============================================================================="]
    return "\n".join(lines) + "\n"


def describe(trace, matched):
    o = trace["steps"][0]["obs"]
    d = trace["deriv"]
    msg = f"{o['kind']}: derivation {d['root']}" + (f"[{d['slot']} <- {d['child']}" + (f"[{d['grand']}]" if d["grand"] else "") + "]" if d["slot"] else "") + f" layout={d['layout']} mode={d['mode']} {o.get('detail', '')}\n--- source ---\n{trace['src']!r}"
    if o.get("diff"):
        msg += f"\n--- CPython ---\n...{o['diff'][0]}...\n--- xonsh ---\n...{o['diff'][1]}..."
    return msg


def slim(t):
    o = t["steps"][0]["obs"]
    return {"deriv": t["deriv"], "steps": [{"cmd": "parse", "obs": {"cpy": o["cpy"], "ok": bool(o["xsh"] and o["same"] and o["compiles"])}}]}


def prods_module():
    """The production sets as a TLA+ module (generated; must equal the committed specs/PyGrammarProds.tla)."""
    def tset(xs):
        return "{" + ", ".join('"%s"' % x for x in xs) + "}"

    kinds = {k: [n for n in P if P[n][0] == k] for k in ("expr", "target", "stmt", "compound")}
    lines = ["--------------------------- MODULE PyGrammarProds ---------------------------", "(* GENERATED by tools/gen_pygrammar.py from harness/pygrammar.py - do not edit. *)"]
    for k, v in kinds.items():
        lines.append(f"{k.capitalize()}Prods == {tset(v)}")
    for s in ("E", "E2", "T", "B", "BB"):
        lines.append(f"Has{s} == {tset([n for n in P if s in slots_of(n)])}")
    for w in ("def", "async", "loop", "nested"):
        lines.append(f"Where_{w} == {tset([n for n in P if P[n][2] == w])}")
    lines.append("Layouts == " + tset(pygrammar.LAYOUTS))
    lines.append("=============================================================================")
    return "\n".join(lines) + "\n"


def run(tier, seed, replay=None):
    res = core.Result(PID, tier, seed)
    rng = random.Random(seed)
    committed = open(os.path.join(tlc.SPECS, "PyGrammarProds.tla")).read()
    if committed != prods_module():
        raise tlc.TLCError("specs/PyGrammarProds.tla is out of date: run tools/gen_pygrammar.py")
    known = load_known()
    tlc.EXTRA_MODULES[:] = [("PyGrammarKnown.tla", known_module(known))]
    cfg_text = open(os.path.join(tlc.SPECS, "PyGrammar.cfg")).read()
    mc = {}
    if replay:
        payload = json.load(open(replay))["payload"]
        d = payload["trace"]["deriv"]
        if d["root"] == "Corpus":
            scns = [{"src": payload["trace"]["src"], "mode": "exec", "deriv": d}]
        else:
            scns = [scenario(d["root"], d["slot"], d["child"], d["grand"], d["layout"], d["mode"])]
    else:
        mc = tlc.model_check("PyGrammar", cfg_text=cfg_text, coverage=False, timeout=1800)
        r = tlc.model_check("PyGrammar", cfg_text=core.set_deviations(cfg_text, ["Dev_KnownDerivation"]), expect_ok=not (known["prods"] or known["pairs"]), coverage=False, timeout=1800)
        res.coverage["deviation_selftest"] = {"Dev_KnownDerivation": r["errors"][:1]}
        scns = universe(tier, rng, core.streams(tier, seed))
    out = pool.run("pyparse", scns, hooks=False, timeout=3000)
    bad_workers = [t for t in out if "steps" not in t]
    if bad_workers:
        raise tlc.TLCError("driver failure: " + json.dumps(bad_workers[0])[:3000])
    for t, s in zip(out, scns):
        t["deriv"] = s["deriv"]
    stats = core.validate_with_findings(res, "PyGrammarTrace", out, cfg_text, describe=describe, timeout=3000, project=slim)
    # one KNOWN-FINDING line per listed entry that explains a failing derivation of this run
    res.known.pop("C01-known-derivations", None)
    for t in out:
        o = t["steps"][0]["obs"]
        if o["cpy"] and not (o["xsh"] and o["same"] and o["compiles"]):
            for fid in explanations(t["deriv"], known)[:1]:
                res.known_finding(fid)
    kinds = {}
    for t in out:
        k = t["steps"][0]["obs"]["kind"]
        kinds[k] = kinds.get(k, 0) + 1
    python_ok = [t for t in out if t["steps"][0]["obs"]["cpy"]]
    cov = {
        "states": mc.get("distinct", 1),
        "transitions": mc.get("states", 1),
        "traces_validated_against_impl": stats["validated"],
        "samples": [{"deriv": t["deriv"], "src": t["src"], "outcome": t["steps"][0]["obs"]["kind"]} for t in python_ok[len(python_ok) // 2: len(python_ok) // 2 + 3]],
        "evaluations": len(out),
        "programs": len(python_ok),
        "disagreements_checked": sum(1 for t in python_ok if t["steps"][0]["obs"]["kind"] != "ok"),
        "distinct_nontrivial": len({(t["src"], t["mode"]) for t in python_ok if t["deriv"]["slot"] or t["deriv"]["root"] == "Corpus"}),
        "rule": f"one case = a derivation of the Python 3.12 grammar tables ({len(P)} named productions: expressions incl. every operator, string prefix and f-string form; assignment targets; simple and compound statements incl. match and type parameters): a production alone (U1, every layout of 14: CRLF, tabs, 2/8-space indents, comments, blank lines, trailing blanks, continuations, form feed ...; exec/eval/single modes), every (parent, slot, child) nesting (U2; a seeded eighth of them in the quick tier) depth-3 nestings x layouts from fixed random streams (U3), and the corpus (U4: every statement at any depth, and every string constant that is itself a program, of the syntax-oriented files of CPython's own test suite as installed with the interpreter - test_grammar, test_patma, test_fstring, test_ast, test_unparse ... - about 19 000 texts, all of them in both tiers), the generated ones wrapped in the context its productions need (def / async def / loop / nested def); CPython's ast.parse decides membership (rejected texts are dropped), xonsh's parser - LALR table regenerated from the working tree - must accept, build the same tree after location-free normalisation (node kinds, every identifier field, constants by type and value, contexts, operators, arity and order) and the tree must compile; non-trivial = a nesting (not a production alone) or a corpus text CPython accepts; distinct by (text, mode)",
        "productions": len(P),
        "outcomes": kinds,
        "listed_findings": {k: len(known[k]) for k in ("prods", "layouts", "pairs", "triples")},
        "trace_validation": stats,
        "exhaustive": tier == "thorough",
    }
    cov.update(res.coverage)
    core.write_evidence(res, "exploration", cov, assumptions=[
        "CPython 3.12 (the interpreter running the suite) is the oracle for membership and for the tree",
        "absent fields, None and [] are one value; Constant.kind and type_comment are ignored; a sole expression statement returned as Expression in exec mode is wrapped the way Execer.parse wraps it; exec/single input ends with a newline (Execer appends it)",
        "bounded nesting depth 3 and fixed identifier/constant pools",
    ])
    return finish_c01(res, known)


def finish_c01(res, known):
    """core.finish, with the KNOWN-FINDING lines taken from known_findings_c01.json."""
    import sys
    import time

    for fid, n in sorted(res.known.items()):
        f = known["entries"].get(fid)
        if f:
            print(f"KNOWN-FINDING: property={PID} {fid}: {f['what']} (x{n})")
    res.known = {k: v for k, v in res.known.items() if k not in known["entries"]}
    sys.stdout.flush()
    return core.finish(res)
