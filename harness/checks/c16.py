"""C16 - $PWD, the process directory and the directory stack stay in step (spec DirStack)."""

from __future__ import annotations

import itertools
import json
import os
import random

from harness import core, pool, tlc

PID = "C16"
SPEC = "DirStack"


def _arg(kind, path=(), n=0):
    return {"kind": kind, "path": list(path), "n": n}


def _step(cmd, arg, flag=False):
    return {"cmd": cmd, "arg": arg, "flag": flag}


ABS = [["r"], ["r", "a"], ["r", "a", "c"], ["r", "b"], ["r", "l"], ["r", "l", "c"], ["r", "k"], ["r", "f"], ["r", "nope"]]
REL = [["a"], ["b"], ["c"], ["l"], ["k"], [".."], ["..", "b"], ["..", "c"], ["nope"], ["f"]]


def all_commands(maxn=3):
    cmds = []
    paths = [_arg("abs", p) for p in ABS] + [_arg("rel", p) for p in REL]
    for a in paths:
        cmds.append(_step("cd", a))
        cmds.append(_step("cd", a, True))
        cmds.append(_step("pushd", a))
        if a["kind"] == "abs":
            cmds.append(_step("pushd", a, True))
    for n in range(maxn + 1):
        cmds.append(_step("cd", _arg("minus", n=n)))
        for k in ("plus", "minus"):
            cmds.append(_step("pushd", _arg(k, n=n)))
            cmds.append(_step("popd", _arg(k, n=n)))
            cmds.append(_step("popd", _arg(k, n=n), True))
            cmds.append(_step("dirs", _arg(k, n=n)))
    for k in ("none", "dash", "junk", "two"):
        cmds.append(_step("cd", _arg(k)))
    for k in ("none", "junk"):
        cmds.append(_step("pushd", _arg(k)))
        cmds.append(_step("popd", _arg(k)))
    cmds.append(_step("pushd", _arg("none"), True))
    cmds.append(_step("popd", _arg("none"), True))
    for k in ("show", "clear", "junk"):
        cmds.append(_step("dirs", _arg(k)))
    return cmds


# set-up prefixes reaching the states where index arithmetic and failure paths differ
PREFIXES = {
    "empty": [],
    "stack3": [_step("pushd", _arg("abs", ["r", "a"])), _step("pushd", _arg("abs", ["r", "a", "c"])), _step("pushd", _arg("abs", ["r", "b"]))],
    "stack2_link": [_step("cd", _arg("abs", ["r", "l", "c"])), _step("pushd", _arg("abs", ["r", "b"])), _step("pushd", _arg("abs", ["r", "k"]))],
    "top_deleted": [_step("cd", _arg("abs", ["r", "b"])), _step("pushd", _arg("abs", ["r", "a"])), _step("pushd", _arg("abs", ["r"])),
                    _step("rmdir", _arg("abs", ["r", "b"]))],
    "second_deleted": [_step("cd", _arg("abs", ["r", "a", "c"])), _step("pushd", _arg("abs", ["r", "a"])), _step("pushd", _arg("abs", ["r"])),
                       _step("rmdir", _arg("abs", ["r", "a", "c"]))],
    "oldpwd_deleted": [_step("cd", _arg("abs", ["r", "b"])), _step("cd", _arg("abs", ["r", "a"])), _step("rmdir", _arg("abs", ["r", "b"]))],
    "in_k": [_step("pushd", _arg("abs", ["r", "b"])), _step("cd", _arg("abs", ["r", "k"]))],
}
def _setconf(conf):
    return {"cmd": "setconf", "arg": _arg("none"), "flag": False, "conf": conf}


TAIL = [_step("dirs", _arg("show")), _step("popd", _arg("none")), _step("dirs", _arg("show"))]


def confs(sizes=(1, 2, 20)):
    out = []
    for ap, pm, size, cdp in itertools.product((False, True), (False, True), sizes, ([], [["r", "a"]])):
        out.append({"autoPushd": ap, "pushdMinus": pm, "size": size, "cdpath": cdp})
    return out


def _arg_ok(prefix_name, st):
    # mirrors ArgOK of the spec for the fixed prefixes: ".." is not offered at the tree top
    a = st["arg"]
    return not (a["kind"] == "rel" and a["path"][0] == ".." and prefix_name in ("empty", "stack3", "top_deleted", "second_deleted"))


def systematic(tier, rng):
    cmds = all_commands(3)
    scns = []
    cs = confs()
    for name, pre in PREFIXES.items():
        for conf in cs:
            if tier == "quick" and conf["cdpath"] and conf["size"] != 20:
                continue
            for c in cmds:
                if not _arg_ok(name, c):
                    continue
                scns.append({"conf": conf, "steps": pre + [c] + TAIL, "src": f"sys:{name}"})
    # settings changed in mid-session: build a deep stack under a large limit, then shrink it / flip a switch
    deep = [_step("pushd", _arg("abs", p)) for p in (["r", "a"], ["r", "a", "c"], ["r", "b"], ["r", "l"], ["r"])]
    for conf in cs:
        if conf["size"] != 20:
            continue
        for new in cs:
            if new == conf or (tier == "quick" and new["cdpath"] != conf["cdpath"]):
                continue
            for c in rng.sample(cmds, 12 if tier == "quick" else 40):
                if _arg_ok("stack3", c):
                    scns.append({"conf": conf, "steps": deep + [_setconf(new), c] + TAIL, "src": "sys:reconf"})
    if tier == "quick":
        rng.shuffle(scns)
        scns = scns[:3000]
    return scns


def from_behaviours(behs):
    scns = []
    for b in behs:
        steps = []
        for s in b[1:]:
            if s["act"]["cmd"] == "fixcwd":
                continue  # the driver inserts the resynchronisation after every command itself
            steps.append(dict(s["act"], conf=s["conf"]) if s["act"]["cmd"] == "setconf" else s["act"])
        scns.append({"conf": b[0]["conf"], "steps": steps + [_step("dirs", _arg("show"))], "src": "tlc-sim"})
    return scns


def describe(trace, matched):
    steps = trace["steps"]
    if matched >= len(steps):
        return "trace matched"
    st = steps[matched]
    pre = [f"{s['cmd']}({s['arg']['kind']},{'/'.join(s['arg']['path'])},{s['arg']['n']},{s['flag']})" for s in steps[: matched + 1]]
    return f"step {matched + 1} not allowed by DirStack: conf={trace['conf']} cmds={' ; '.join(pre)} observed={json.dumps(st['obs'])} err={st.get('err', '')!r}"


def run(tier, seed, replay=None):
    res = core.Result(PID, tier, seed)
    rng = random.Random(seed)
    cfg_name = "DirStack.cfg" if tier == "quick" else "DirStack_thorough.cfg"
    cfg_text = open(os.path.join(tlc.SPECS, cfg_name)).read()
    sim_cfg = open(os.path.join(tlc.SPECS, "DirStack_thorough.cfg")).read()
    if replay:
        payload = json.load(open(replay))["payload"]
        scns = [{"conf": payload["trace"]["conf"], "steps": [{k: s[k] for k in ("cmd", "arg", "flag", "conf")} for s in payload["trace"]["steps"] if s["cmd"] != "fixcwd"], "src": "replay"}]
        mc = {"states": 0, "distinct": 0}
    else:
        mc = tlc.model_check(SPEC, cfg_text=cfg_text, coverage=(tier == "thorough"), timeout=3000 if tier == "thorough" else 900)
        if mc.get("never_taken"):
            raise tlc.TLCError(f"vacuity: actions never taken in {SPEC}: {mc['never_taken']}")
        # the model must be strong enough to see each recorded deviation
        from harness import findings

        selftest = {}
        for dev in findings.open_deviations(PID) if tier == "thorough" else findings.open_deviations(PID)[:1]:
            r = tlc.model_check(SPEC, cfg_text=core.set_deviations(cfg_text, [dev]), expect_ok=False, coverage=False, timeout=600)
            selftest[dev] = r["errors"][:1]
        res.coverage["deviation_selftest"] = selftest
        nsim = 400 if tier == "quick" else 6000
        behs, _ = tlc.simulate_behaviours(SPEC, sim_cfg, depth=10 if tier == "quick" else 14, num=nsim, seed=seed + 1, timeout=600)
        scns = from_behaviours(behs) + systematic(tier, rng)
    traces = pool.run("dirstack", scns, hooks=False)
    bad_workers = [t for t in traces if "steps" not in t]
    if bad_workers:
        raise tlc.TLCError("driver failure: " + json.dumps(bad_workers[0])[:3000])
    stats = core.validate_with_findings(res, "DirStackTrace", traces, sim_cfg, describe=describe, meta=[s["src"] for s in scns])
    distinct = len({json.dumps([(s["cmd"], s["arg"], s["flag"]) for s in t["steps"]] + [t["conf"]], sort_keys=True) for t in traces
                    if any(not s["obs"]["failed"] and s["cmd"] in ("cd", "pushd", "popd") for s in t["steps"])})
    cov = {
        "states": mc.get("distinct", 0) or 1,
        "transitions": mc.get("states", 0) or 1,
        "traces_validated_against_impl": stats["validated"],
        "samples": [{"conf": t["conf"], "cmds": [(s["cmd"], s["arg"], s["flag"]) for s in t["steps"]], "last_obs": t["steps"][-1]["obs"]} for t in traces[:2]],
        "evaluations": len(traces),
        "distinct_nontrivial": distinct,
        "rule": "scenario = settings + command sequence (TLC -simulate behaviours of DirStack and every command from 7 set-up prefixes); non-trivial = contains a succeeding cd/pushd/popd; distinct by settings + command sequence",
        "mc_config": cfg_name,
        "mc_depth": mc.get("depth"),
        "mc_action_coverage": mc.get("coverage"),
        "trace_validation": stats,
        "exhaustive": False,
    }
    cov.update(res.coverage)
    res_path = core.write_evidence
    rc_preview = len(res.violations)
    core.write_evidence(res, "model_checking", cov, assumptions=[
        "model tree r/{a/{c},b,l->a,k->a/c,f}; +N/-N with N<=3; sizes {1,2,20}",
        "'reports an error' = non-zero return code or a message on stderr",
        "TLC exhaustive run bounded by Len(stack) <= MaxStack",
    ])
    return core.finish(res)
