"""C13 - a crash or I/O failure while saving history never damages what was already saved (spec HistFS)."""

from __future__ import annotations

import json
import os

from harness import core, findings, pool, tlc
from harness.drivers.histfs import OPS

PID = "C13"
SPEC = "HistFS"
TRACE_CFG = '''SPECIFICATION Spec
CONSTANTS
  Files = {"f1", "f2", "f3", "db"}
  Tmps = {"t1", "t2", "t3", "t4"}
  Deviations = {}
'''


def describe(trace, matched):
    steps = trace["steps"]
    if matched >= len(steps):
        return "trace matched"
    st = steps[matched]
    ev = [(s["cmd"], s["f"], s["t"]) for s in steps[: matched + 1]]
    return (f"{trace['op']}: {trace['mode']} at operation {trace['k']}{' (inside the write)' if trace.get('partial') else ''}: step {matched + 1} not allowed by HistFS: "
            f"events={ev} found={st.get('found')} files={trace.get('snap')}")


def run(tier, seed, replay=None):
    res = core.Result(PID, tier, seed)
    cfg_text = open(os.path.join(tlc.SPECS, "HistFS.cfg")).read()
    mc = tlc.model_check(SPEC, cfg_text=cfg_text, coverage=True, timeout=600)
    never = [a for a in mc.get("never_taken", []) if a not in ("OpenTrunc", "WriteInPlace", "CloseInPlace", "FailInPlace", "SqlDone")]
    if never:
        raise tlc.TLCError(f"vacuity: actions never taken in {SPEC}: {never}")
    selftest = {}
    for dev in ("Dev_InPlaceRewrite", "Dev_ReplaceBeforeClose", "Dev_NoTransaction"):
        r = tlc.model_check(SPEC, cfg_text=core.set_deviations(cfg_text, [dev]), expect_ok=False, coverage=False, timeout=600)
        selftest[dev] = r["errors"][:1]
    res.coverage["deviation_selftest"] = selftest
    scns = [{"op": op, "modes": ["crash", "fail"]} for op in OPS]
    out = pool.run("histfs", scns, hooks=False, timeout=900)
    bad_workers = [t for t in out if "traces" not in t]
    if bad_workers:
        raise tlc.TLCError("driver failure: " + json.dumps(bad_workers[0])[:3000])
    traces = [t for o in out for t in o["traces"]]
    if replay:
        payload = json.load(open(replay))["payload"]
        traces = [t for t in traces if t["op"] == payload["trace"]["op"] and t["mode"] == payload["trace"]["mode"] and t["k"] == payload["trace"]["k"]]
    stats = core.validate_with_findings(res, "HistFSTrace", traces, TRACE_CFG, describe=describe, timeout=1200)
    points = {o["op"]: o["nops"] for o in out}
    cov = {
        "evaluations": len(traces),
        "distinct_nontrivial": len({(t["op"], t["mode"], t["k"], t.get("partial")) for t in traces if t["mode"] != "clean"}),
        "rule": "one case = (history-rewriting operation, fault kind, fault point): the process is killed before / in the middle of the k-th file-system or SQL operation, or that call raises OSError; every k of every operation is enumerated; non-trivial = a fault was injected; distinct by (operation, kind, k, inside-write)",
        "samples": [{"op": t["op"], "mode": t["mode"], "k": t["k"], "events": [(s["cmd"], s["f"], s["t"]) for s in t["steps"][:-1]], "found": t["steps"][-1]["found"]} for t in traces[1:4]],
        "operations": OPS,
        "fault_points_per_operation": points,
        "states": mc.get("distinct", 1),
        "transitions": mc.get("states", 1),
        "traces_validated_against_impl": stats["validated"],
        "trace_validation": stats,
        "exhaustive": True,
    }
    cov.update(res.coverage)
    core.write_evidence(res, "fault_enumeration", cov, assumptions=[
        "process kill (os._exit) and failing calls, not power loss: no fsync modelling",
        "fault points are the interposed calls: mkstemp, every write(), close, os.replace, unlink/remove, open-for-writing of a history file, data-modifying SQL statements and commits",
        "SQLite's own atomic commit is trusted",
    ])
    return core.finish(res)
