"""C20 - the job table is consistent with the processes it tracks (spec Jobs)."""

from __future__ import annotations

import json
import os
import random

from harness import core, findings, pool, tlc, tour

PID = "C20"
SPEC = "Jobs"


def describe(trace, matched):
    steps = trace["steps"]
    if matched >= len(steps):
        return "trace matched"
    st = steps[matched]
    pre = [f"{s['cmd']}({s['arg']['kind']},{s['arg']['n']},{s['ids']},{s['thr']})" for s in steps[: matched + 1]]
    return f"step {matched + 1} not allowed by Jobs: cmds={' ; '.join(pre)} observed={json.dumps(st['obs'])} err={st.get('err', '')!r}"


# pinned regressions / witnesses (always run)
def _a(kind="none", n=0):
    return {"kind": kind, "n": n}


def _s(cmd, arg=None, ids=(), thr="main"):
    return {"cmd": cmd, "arg": arg or _a(), "ids": list(ids), "thr": thr}


def stubbed(steps):
    """TLC-generated scenarios use stub processes only: a real pipeline followed by fg would
    wait for it.  Real pipelines are exercised by real_scenarios()."""
    out = []
    for st in steps:
        if st["cmd"] == "startreal":
            if st["arg"]["kind"] == "alias":
                continue
            st = dict(st, cmd="start", arg={"kind": "bg", "n": 0})
        out.append(st)
    return out


PINNED = [
    [_s("start", _a("bg")), _s("start", _a("fg")), _s("disown", ids=[1, 4])],
    [_s("startreal", _a("proc")), _s("startreal", _a("proc|alias")), _s("startreal", _a("alias|proc")), _s("startreal", _a("alias")), _s("jobs"),
     _s("exit", _a("num", 2)), _s("jobs", thr="alias"), _s("startreal", _a("proc|proc")), _s("jobs")],
    [_s("startfaulty", _a("bg")), _s("start", _a("bg")), _s("jobs"), _s("fg", _a("num", 1)), _s("startfaulty", _a("bg")), _s("jobs")],
    [_s("start", _a("bg")), _s("start", _a("bg")), _s("start", _a("bg")), _s("exit", _a("num", 2)), _s("start", _a("bg")), _s("jobs")],
    [_s("start", _a("bg")), _s("start", _a("bg")), _s("exit", _a("num", 2)), _s("fg", _a("minus")), _s("jobs", thr="alias")],
    [_s("start", _a("bg")), _s("start", _a("bg")), _s("start", _a("bg")), _s("bg", _a("num", 1), thr="alias"), _s("fg", _a("minus")), _s("exit", _a("num", 3)),
     _s("exit", _a("num", 1)), _s("jobs"), _s("start", _a("fg")), _s("jobs", thr="alias")],
]


def real_scenarios(tier, rng):
    """Real background pipelines through the real subprocess machinery (no fg/bg: no terminal)."""
    kinds = ["proc", "proc|proc", "proc|alias", "alias|proc", "alias"]
    scns = []
    n = 24 if tier == "quick" else 200
    for k in range(n):
        steps = []
        live = []
        for i in range(rng.randint(3, 7)):
            r = rng.random()
            if r < 0.45 and len(live) < 3:
                kind = kinds[(k + i) % 5] if i < 2 else rng.choice(kinds)
                steps.append(_s("startreal", _a(kind)))
                if kind != "alias":
                    live.append(None)
            elif r < 0.55 and len(live) < 3:
                steps.append(_s("startfaulty", _a("bg")))
                live.append(None)
            elif r < 0.7:
                steps.append(_s("jobs", thr=rng.choice(["main", "alias"])))
            elif r < 0.85:
                steps.append(_s("exit", _a("num", rng.randint(1, 3))))
            else:
                steps.append(_s("disown", ids=[rng.randint(1, 3)], thr=rng.choice(["main", "alias"])))
        steps.append(_s("jobs"))
        scns.append({"maxjobs": 4, "steps": steps})
    return scns


def run(tier, seed, replay=None):
    res = core.Result(PID, tier, seed)
    rng = random.Random(seed)
    cfg_text = open(os.path.join(tlc.SPECS, "Jobs.cfg")).read()
    big_cfg = open(os.path.join(tlc.SPECS, "Jobs_thorough.cfg")).read()
    mc = {}
    if replay:
        payload = json.load(open(replay))["payload"]
        scns = [{"maxjobs": payload["trace"]["maxjobs"], "steps": payload["trace"]["steps"]}]
        srcs = ["replay"]
    else:
        mc = tlc.model_check(SPEC, cfg_text=cfg_text if tier == "quick" else big_cfg, coverage=True, timeout=1800)
        if mc.get("never_taken"):
            raise tlc.TLCError(f"vacuity: actions never taken in {SPEC}: {mc['never_taken']}")
        selftest = {}
        for dev in findings.open_deviations(PID):
            r = tlc.model_check(SPEC, cfg_text=core.set_deviations(cfg_text, [dev]), expect_ok=False, coverage=False, timeout=600)
            selftest[dev] = r["errors"][:1]
        res.coverage["deviation_selftest"] = selftest
        inits, edges, states, er = tlc.dump_edges(SPEC, cfg_text, timeout=900)
        tours = tour.plan(inits, edges, max_len=60, rng=rng, edge_limit=None if tier == "thorough" else 12000)
        scns, srcs = [], []
        covered = set()
        for init, steps in tours:
            covered.update(steps)
            scns.append({"maxjobs": 3, "steps": stubbed([edges[i][1][0] for i in steps])})
            srcs.append("tour")
        res.coverage["graph_edges"] = len(edges)
        res.coverage["graph_states"] = len(states)
        res.coverage["edges_in_tours"] = len(covered)
        behs, _ = tlc.simulate_behaviours(SPEC, big_cfg, depth=16 if tier == "quick" else 24, num=300 if tier == "quick" else 5000, seed=seed + 1, timeout=600)
        for b in behs:
            scns.append({"maxjobs": 4, "steps": stubbed([s["act"] for s in b[1:]])})
            srcs.append("tlc-sim")
        for p in PINNED:
            scns.append({"maxjobs": 4, "steps": p})
            srcs.append("pinned")
        for sc in real_scenarios(tier, rng):
            scns.append(sc)
            srcs.append("real-pipelines")
    traces = pool.run("jobs", scns, hooks=False)
    bad_workers = [t for t in traces if "steps" not in t]
    if bad_workers:
        raise tlc.TLCError("driver failure: " + json.dumps(bad_workers[0])[:3000])
    # traces of the two table sizes are validated against the matching constants
    stats_all = {"validated": 0, "accepted_conformant": 0, "accepted_with_known_deviation": 0, "rejected": 0, "tlc_states": 0}
    for mj, cfgt in ((3, cfg_text), (4, big_cfg)):
        sel = [i for i, t in enumerate(traces) if t["maxjobs"] == mj]
        if not sel:
            continue
        st = core.validate_with_findings(res, "JobsTrace", [traces[i] for i in sel], cfgt, describe=describe, meta=[srcs[i] for i in sel])
        for k in stats_all:
            stats_all[k] += st.get(k, 0)
    truncated = sum(1 for t in traces if t.get("truncated"))
    distinct = len({json.dumps(t["steps"], sort_keys=True) for t in traces if any(s["cmd"] in ("fg", "bg", "disown") and not s["obs"]["failed"] for s in t["steps"])})
    cov = {
        "states": mc.get("distinct", 1),
        "transitions": mc.get("states", 1),
        "traces_validated_against_impl": stats_all["validated"],
        "samples": [[(s["cmd"], s["arg"], s["ids"], s["thr"], s["obs"]["tasks"]) for s in t["steps"][:12]] for t in traces[-2:]],
        "evaluations": len(traces),
        "distinct_nontrivial": distinct,
        "rule": "scenario = sequence of job starts/exits/stops and fg/bg/disown/jobs invocations (transition tours covering the edges of the MaxJobs=3 state graph, TLC -simulate behaviours with MaxJobs=4, pinned regressions); non-trivial = contains a succeeding fg/bg/disown; distinct by step sequence",
        "trace_validation": stats_all,
        "scenarios_truncated_by_nondeterminism": truncated,
        "mc_action_coverage": mc.get("coverage"),
        "exhaustive": bool(tier == "thorough" and not replay and res.coverage.get("edges_in_tours") == res.coverage.get("graph_edges")),
    }
    cov.update(res.coverage)
    core.write_evidence(res, "model_checking", cov, assumptions=[
        "process objects are stubs whose poll() is scripted; no signals are sent (pids=[None], pgrp=None)",
        "'reports an error' = non-zero return code or a message in the command's error slot",
        "disown may or may not purge finished jobs before selecting (left open by the property)",
    ])
    return core.finish(res)
