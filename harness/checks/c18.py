"""C18 - tab-completing a path always inserts text that means that path; analysing a command line
for completion never fails (spec Quote)."""

from __future__ import annotations

import itertools
import json
import os
import random

from harness import core, findings, pool, tlc
from harness.checks.c03 import HOSTILE

PID = "C18"
TIER1 = ["a", "sp", "sq", "dq", "dl", "bs", "nl", "tab", "bang", "star", "qm", "tilde", "dash", "hash", "lb", "rb", "amp"]
TIER2 = ["b", "semi", "pipe", "gt", "lt", "lp", "rp", "lk", "rk", "comma", "bq", "eq", "pct", "at", "colon", "caret", "dot", "cr", "uni", "and"]
OPENS = ["none", "sq", "dq", "rsq", "rdq"]


def leading_plain(name):
    k = 0
    for s in name:
        if s in ("a", "b"):
            k += 1
        else:
            break
    return k


# symbols the user can type literally after an opening quote of any style (no quote characters, no
# backslash, `$`, `!`, backtick or control characters)
TYPABLE = {"a", "b", "sp", "star", "qm", "tilde", "dash", "hash", "lb", "rb", "amp", "semi", "pipe", "gt", "lt", "lp", "rp", "lk", "rk", "comma", "eq", "pct", "at", "colon", "caret", "dot", "uni", "and"}
OPERATOR_LIKE = {"gt", "lt", "pipe", "semi", "amp", "lp", "rp", "and", "hash", "sp", "lk", "rk", "lb", "rb", "comma", "eq", "at"}


def typable_run(name):
    k = 0
    for s in name:
        if s in TYPABLE:
            k += 1
        else:
            break
    return k


def universe(tier, rng, streams):
    names = []
    full = 2 if tier == "quick" else 3
    for n in range(1, full + 1):
        names += [list(t) for t in itertools.product(TIER1, repeat=n)]
    if tier == "quick":
        names += [list(t) for t in rng.sample(list(itertools.product(TIER1, repeat=3)), 900)]
    # longer and wider names from the fixed random streams
    for srng in streams:
        for _ in range(400):
            n = srng.randint(3, 6)
            names.append([srng.choice(TIER1 + TIER2) if srng.random() < 0.6 else "a" for _ in range(n)])
    for s in TIER2:
        names += [[s], ["a", s], [s, "a"], ["a", s, "a"], [s, s]]
    scns, seen = [], set()
    for name in names:
        if name in (["dot"], ["dot", "dot"]):
            continue
        for o in OPENS:
            ks = {0, leading_plain(name)} if o != "none" else {0, min(1, leading_plain(name))}
            # inside an opened quote the user may have typed on, through characters that are operators
            # outside quotes (`'a>b`, `"x | y`): up to and including the last such character of the typable run
            if o != "none":
                run_ = typable_run(name)
                ops = [i + 1 for i in range(run_) if name[i] in OPERATOR_LIKE]
                if ops:
                    ks |= {ops[0], ops[-1], run_}
            for k in sorted(ks):
                # files by default; directories and an already present closing quote on a fixed tenth each
                h = sum(map(ord, "".join(name) + o)) + 7 * k
                variants = [{}]
                if h % 7 == 0:
                    variants.append({"dir": True})
                if o != "none" and h % 7 == 1:
                    variants.append({"closing": "after"})
                if o != "none" and k >= 1 and h % 7 in (2, 3):
                    variants.append({"closing": "closed"})
                # a `$` in the name decides between raw and plain quoting: always with an existing closing quote too
                if o != "none" and "dl" in name:
                    variants += [{"closing": "after"}] + ([{"closing": "closed"}] if k >= 1 else [])
                for v in variants:
                    scn = dict({"name": name, "open": o, "typed": k}, **v)
                    key = json.dumps(scn, sort_keys=True)
                    if key not in seen:
                        seen.add(key)
                        scns.append(scn)
    return scns


def analyser_universe(tier, rng, lines, streams):
    texts = list(HOSTILE) + lines
    texts += ["c0 " + t for t in ("'a b", '"a b', "r'a", "a\\ b", "a'b'c", "'a''b'", "$(c1 'a", "@(x) 'a", "a | c1 'b", "a && c1 \"b", "a; c1 b", "a > 'f", "a 2> f", "![c1 'a", "$[c1 a", "p'a", "pr'a", "f'{x}", "'''a", '"""a\nb')]
    toks = ["c0", " ", "'", '"', "r'", "a", "\\", "$(", ")", "|", "&&", ";", ">", "@(", "![", "]", "\n", "#", "and", "or", "=", "-", "{", "}"]
    for srng in streams:
        texts += ["".join(srng.choice(toks) for _ in range(srng.randint(1, 9))) for _ in range(600)]
    scns, seen = [], set()
    for t in texts:
        if len(t) > 200 or "\x00" in t:
            continue
        cursors = range(len(t) + 1) if (tier == "thorough" or len(t) <= 12) else sorted({0, len(t), *rng.sample(range(len(t) + 1), min(len(t) + 1, 6))})
        for c in cursors:
            if 0 < c < len(t) and t[c - 1] == "\\" and t[c] == "\n":
                continue  # inside a backslash-newline pair: no text position after the lines are joined
            if (t, c) not in seen:
                seen.add((t, c))
                scns.append({"text": t, "cursor": c})
    return scns


def describe(trace, matched):
    o = trace["steps"][0]["obs"]
    if "cursor" in trace and "name" not in trace:
        return f"analysing {trace['text']!r} at cursor {trace['cursor']}: {o['kind']} {o.get('detail', '')} prefix={o.get('prefix')!r} suffix={o.get('suffix')!r}"
    return (f"completing the {'directory' if trace.get('dir') else 'file'} named {trace['text']!r} from line {o['line']!r} (cursor {o['cursor']}) inserted {o.get('inserted')!r}: "
            f"completed line {o.get('completed_line')!r} -> {o['kind']}, argv {o.get('argv')!r}")


def slim(t):
    return {"kind": "complete", "name": t["name"], "open": t["open"], "typed": t["typed"], "closing": t["closing"], "steps": [{"cmd": "complete", "obs": {"ok": t["steps"][0]["obs"]["ok"]}}]}


def run(tier, seed, replay=None):
    res = core.Result(PID, tier, seed)
    rng = random.Random(seed)
    cfg_text = open(os.path.join(tlc.SPECS, "Quote.cfg")).read()
    if tier == "quick":
        cfg_text = cfg_text.replace("MaxLen = 3", "MaxLen = 2")
    trace_cfg = cfg_text.replace("MaxLen = 2", "MaxLen = 3")
    mc = {}
    ascns = []
    if replay:
        payload = json.load(open(replay))["payload"]
        t = payload["trace"]
        if "name" in t:
            scns = [{k: t[k] for k in ("name", "open", "typed", "dir", "closing") if k in t}]
        else:
            scns, ascns = [], [{"text": t["text"], "cursor": t["cursor"]}]
    else:
        mc = tlc.model_check("Quote", cfg_text=cfg_text, coverage=False, timeout=900)
        selftest = {}
        for dev in findings.open_deviations(PID):
            r = tlc.model_check("Quote", cfg_text=core.set_deviations(trace_cfg, [dev]), expect_ok=False, coverage=False, timeout=600)
            selftest[dev] = r["errors"][:1]
        res.coverage["deviation_selftest"] = selftest
        scns = universe(tier, rng, core.streams(tier, seed))
    out = pool.run("quote", scns, hooks=False, timeout=3000)
    bad_workers = [t for t in out if "steps" not in t]
    if bad_workers:
        raise tlc.TLCError("driver failure: " + json.dumps(bad_workers[0])[:3000])
    skipped = [t for t in out if not t["steps"]]
    out = [t for t in out if t["steps"]]
    stats = core.validate_with_findings(res, "QuoteTrace", out, trace_cfg, describe=describe, timeout=3000, project=slim) if out else {"validated": 0}
    if not replay:
        lines = sorted({t["steps"][0]["obs"].get("completed_line") or t["steps"][0]["obs"]["line"] for t in out})
        ascns = analyser_universe(tier, rng, lines if tier == "thorough" else rng.sample(lines, min(len(lines), 400)), core.streams(tier, seed))
    aout = pool.run("quote", ascns, hooks=False, timeout=3000)
    bad_workers = [t for t in aout if "steps" not in t]
    if bad_workers:
        raise tlc.TLCError("driver failure: " + json.dumps(bad_workers[0])[:3000])
    akinds = {}
    OPS2 = ("$(", "@(", "![", "$[", "!(", "${", "&&", "||", ">>", "@$", "$(")
    for t in aout:
        o = t["steps"][0]["obs"]
        akinds[o["kind"]] = akinds.get(o["kind"], 0) + 1
        c = t["cursor"]
        joined = t["text"]
        # (a backslash-newline between the two characters does not separate them for the analyser)
        around = (joined[:c].replace("\\\n", "")[-1:] + joined[c:].replace("\\\n", "")[:1])
        around3 = (joined[:c].replace("\\\n", "")[-2:] + joined[c:].replace("\\\n", "")[:2])
        t["feat"] = {"inside_op": around in OPS2 or any(op in around3 and around3.index(op) < 2 <= around3.index(op) + len(op) - 1 for op in ("@$(",) if op in around3)}
    astats = core.validate_with_findings(res, "QuoteTrace", aout, trace_cfg, describe=describe, timeout=3000,
                                         project=lambda t: {"kind": "analyse", "feat": t["feat"], "name": [], "open": "none", "typed": 0, "closing": "no", "steps": [{"cmd": "analyse", "obs": {"ok": bool(t["steps"][0]["obs"]["ok"])}}]}) if aout else {"validated": 0}
    kinds = {}
    for t in out:
        o = t["steps"][0]["obs"]
        kinds[o["kind"] + ("" if o["ok"] else "/bad")] = kinds.get(o["kind"] + ("" if o["ok"] else "/bad"), 0) + 1
    cov = {
        "states": mc.get("distinct", 1),
        "transitions": mc.get("states", 1),
        "traces_validated_against_impl": stats["validated"] + astats["validated"],
        "samples": [{"name": t["text"], "open": t["open"], "line": t["steps"][0]["obs"]["line"], "inserted": t["steps"][0]["obs"].get("inserted"), "argv": t["steps"][0]["obs"].get("argv")} for t in out[-3:]]
        + [{"text": t["text"], "cursor": t["cursor"], "context": t["steps"][0]["obs"]["kind"]} for t in aout[-2:]],
        "evaluations": len(out) + len(aout),
        "distinct_nontrivial": len({(t["text"], t["open"]) for t in out if t["steps"][0]["obs"]["kind"] != "no-completion" and any(s not in ("a", "b") for s in t["name"])})
        + len({(t["text"], t["cursor"]) for t in aout if t["steps"][0]["obs"]["kind"] == "command"}),
        "rule": "completion: one case = a real file or directory whose name is a sequence of alphabet symbols (all names up to length 2 (quick) / 3 (thorough) over 17 symbols, sampled longer names over 37 symbols), an opening-quote style (none, ', \", r', r\"), 0 or more typed leading characters, optionally the closing quote already after the cursor; the real completer's insertion is spliced into the line and the line is executed with a recording alias - argv must be exactly the name; non-trivial = a completion was offered and the name holds a non-letter. analyser: one case = (text, cursor) over the hostile pool, completed lines and random token strings, every cursor position of short texts; non-trivial = a command context was produced",
        "completion_outcomes": kinds,
        "analyser_outcomes": akinds,
        "names_not_creatable": len(skipped),
        "trace_validation": {"completion": stats, "analyser": astats},
        "exhaustive": False,
    }
    cov.update(res.coverage)
    core.write_evidence(res, "model_checking", cov, assumptions=[
        "the completion is spliced as the shells do: line[:cursor - prefix_len] + completion + line[cursor:]",
        "only the path completer is installed in the pipeline; $a and $ab are set so that a wrongly expanded name is visible",
        "a case with no completion offered is not a violation (the property speaks about inserted text)",
        "the analyser joins backslash line continuations: prefix/suffix are compared modulo them and cursors inside a backslash-newline pair are not explored",
    ])
    return core.finish(res)
