"""C14 - history garbage collection only ever discards the oldest, unlocked history (spec HistGC)."""

from __future__ import annotations

import itertools
import json
import os
import random

from harness import core, findings, pool, tlc

PID = "C14"
SPEC = "HistGC"
UNITS = ["commands", "files", "s", "b"]


def rand_file(rng, i, age):
    kind = rng.choices(["ok", "empty", "corrupt"], [8, 1, 1])[0]
    lock = "no" if kind != "ok" else rng.choices(["no", "live", "stale"], [6, 2, 2])[0]
    return {"id": i, "age": age, "ncmds": rng.choice([0, 1, 1, 2, 3]), "bytes": 0, "lock": lock, "kind": kind, "pad": rng.choice([0, 0, 3])}


def limits_for(unit, files, rng):
    if unit == "commands":
        tot = sum(f["ncmds"] for f in files)
        return sorted(set([0, 1, 2, tot, tot + 1, max(0, tot - 1), rng.randint(0, tot + 1)]))
    if unit == "files":
        return list(range(0, len(files) + 2))
    if unit == "s":
        return sorted(set([0] + [f["age"] for f in files] + [f["age"] - 1 for f in files if f["age"] > 1]))
    return [{"newest": k, "delta": d} for k in range(0, len(files) + 1) for d in (-1, 0, 1) if not (k == 0 and d < 0)]


def collection_scenario(files, rng, live, ngc=3, damage=False):
    steps = [{"cmd": "add", "file": f} for f in files]
    if live:
        steps.append({"cmd": "live"})
    if damage and live:
        steps.append({"cmd": "damage_live"})
    for unit in UNITS:
        for lim in limits_for(unit, files, rng):
            steps.append({"cmd": "select", "unit": unit, "limit": lim})
    for _ in range(ngc):
        unit = rng.choice(UNITS)
        lim = rng.choice(limits_for(unit, files, rng))
        steps.append({"cmd": "gc", "unit": unit, "limit": lim, "force": rng.random() < 0.5})
    return {"steps": steps}


def scenarios(tier, rng):
    scns = []
    n = 1200 if tier == "quick" else 30000
    for k in range(n):
        nf = rng.choice([1, 2, 3, 3, 4, 4])
        ages = rng.sample([1, 2, 3, 4, 5, 6], nf)
        files = [rand_file(rng, i + 1, ages[i]) for i in range(nf)]
        scns.append(collection_scenario(files, rng, live=(k % 2 == 0), damage=(k % 10 == 0)))
    # boundary sweep: every (unit, limit, force) on fixed collections that touch all boundaries
    fixed = [
        [dict(id=1, age=4, ncmds=2, lock="no", kind="ok"), dict(id=2, age=3, ncmds=1, lock="no", kind="ok"), dict(id=3, age=2, ncmds=2, lock="no", kind="ok"), dict(id=4, age=1, ncmds=1, lock="no", kind="ok")],
        [dict(id=1, age=5, ncmds=1, lock="stale", kind="ok"), dict(id=2, age=3, ncmds=3, lock="live", kind="ok"), dict(id=3, age=2, ncmds=0, lock="no", kind="ok"), dict(id=4, age=1, ncmds=2, lock="no", kind="ok")],
        [dict(id=1, age=6, ncmds=0, lock="no", kind="empty"), dict(id=2, age=4, ncmds=1, lock="no", kind="corrupt"), dict(id=3, age=2, ncmds=2, lock="no", kind="ok")],
        [dict(id=1, age=3, ncmds=1, lock="live", kind="ok"), dict(id=2, age=2, ncmds=1, lock="live", kind="ok")],
    ]
    for files in fixed:
        files = [dict(f, bytes=0, pad=0) for f in files]
        for unit in UNITS:
            for lim in limits_for(unit, files, rng):
                for force in (False, True):
                    for live in (False, True):
                        scns.append({"steps": [{"cmd": "add", "file": f} for f in files] + ([{"cmd": "live"}] if live else []) + [{"cmd": "gc", "unit": unit, "limit": lim, "force": force}]})
    # SQLite: rows inserted in every order, every limit; default and custom database file
    perms = list(itertools.permutations([1, 2, 3, 4]))
    if tier == "quick":
        perms = rng.sample(perms, 8)
    for perm in perms:
        for lim in range(0, 6):
            for custom in (False, True):
                scns.append({"custom_db": custom, "steps": [{"cmd": "addrow", "t": t} for t in perm] + [{"cmd": "sqlgc", "limit": lim}, {"cmd": "sqlgc", "limit": max(0, lim - 1)}]})
    return scns


def describe(trace, matched):
    steps = trace["steps"]
    if matched >= len(steps):
        return "trace matched"
    st = steps[matched]
    files = [s["file"] for s in steps[:matched] if s["cmd"] in ("add", "update")]
    prev = [(s["cmd"], s["unit"], s["limit"], s["force"], s["obs"]) for s in steps[:matched] if s["cmd"] in ("gc", "sqlgc", "addrow", "damage")]
    return f"step {matched + 1} not allowed by HistGC: files={json.dumps(files)} earlier={json.dumps(prev)} {st['cmd']} unit={st['unit']} limit={st['limit']} force={st['force']} custom={st['custom']} observed={json.dumps(st['obs'])}"


def run(tier, seed, replay=None):
    res = core.Result(PID, tier, seed)
    rng = random.Random(seed)
    cfg_name = "HistGC.cfg" if tier == "quick" else "HistGC_thorough.cfg"
    cfg_text = open(os.path.join(tlc.SPECS, cfg_name)).read()
    mc = {}
    if replay:
        payload = json.load(open(replay))["payload"]
        scns = [payload["meta"]]
    else:
        mc = tlc.model_check(SPEC, cfg_text=cfg_text, coverage=(tier == "thorough"), timeout=3000)
        if mc.get("never_taken"):
            raise tlc.TLCError(f"vacuity: actions never taken in {SPEC}: {mc['never_taken']}")
        selftest = {}
        for dev in [d for d in findings.open_deviations(PID) if d in ("Dev_FilesLimitZero", "Dev_SqliteKeepZero")]:
            r = tlc.model_check(SPEC, cfg_text=core.set_deviations(cfg_text, [dev]), expect_ok=False, coverage=False, timeout=600)
            selftest[dev] = r["errors"][:1]
        res.coverage["deviation_selftest"] = selftest
        scns = scenarios(tier, rng)
    traces = pool.run("histgc", scns, hooks=False)
    bad_workers = [t for t in traces if "steps" not in t]
    if bad_workers:
        raise tlc.TLCError("driver failure: " + json.dumps(bad_workers[0])[:3000])
    stats = core.validate_with_findings(res, "HistGCTrace", traces, cfg_text, describe=describe, meta=scns, timeout=3000)
    ngc = sum(1 for t in traces for s in t["steps"] if s["cmd"] in ("gc", "sqlgc"))
    nsel = sum(1 for t in traces for s in t["steps"] if s["cmd"] == "select")
    removing = len({json.dumps([s for s in t["steps"] if s["cmd"] == "add"] + [(s["unit"], s["limit"], s["force"]) for s in t["steps"] if s["cmd"] == "gc"], sort_keys=True)
                    for t in traces if any(s["cmd"] == "gc" and len(s["obs"]["remaining"]) < sum(1 for x in t["steps"] if x["cmd"] == "add") for s in t["steps"])})
    cov = {
        "states": mc.get("distinct", 1),
        "transitions": mc.get("states", 1),
        "traces_validated_against_impl": stats["validated"],
        "samples": [[(s["cmd"], s.get("file") if s["cmd"] == "add" else (s["unit"], s["limit"], s["force"]), s["obs"]) for s in t["steps"] if s["cmd"] != "select"][:8] for t in traces[:2]],
        "evaluations": ngc + nsel,
        "real_gc_runs": ngc,
        "pure_selection_calls": nsel,
        "distinct_nontrivial": removing,
        "rule": "scenario = collection of <= 4 history files (ages, command counts, sizes, lock no/live/stale, ok/empty/corrupt) optionally with the running session's own file, every unit x boundary limits through the pure selection functions, then real `history gc` runs; SQLite tables filled in every timestamp order; non-trivial = a real GC run that removed at least one file; distinct by collection + run parameters",
        "trace_validation": stats,
        "mc_config": cfg_name,
        "mc_action_coverage": mc.get("coverage"),
        "exhaustive": False,
    }
    cov.update(res.coverage)
    core.write_evidence(res, "model_checking", cov, assumptions=[
        "one model age unit = 1000 s of real closing-timestamp age (robust against run time)",
        "'refuses' = the run removes nothing and prints the would-discard warning; rule: discarded units >= limit (the code's own definition)",
        "byte limits are taken relative to the real file sizes",
    ])
    return core.finish(res)
