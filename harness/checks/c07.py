"""C07 - redirections and pipes deliver each stream to exactly the documented place (spec Redirect)."""

from __future__ import annotations

import itertools
import json
import os
import random

from harness import core, findings, pool, tlc
from harness.drivers.redirect import SPELL

PID = "C07"
SPEC = "Redirect"
CLASSES = ["out", "err", "all", "e2o", "o2e", "e2p", "a2p", "in"]
KINDS = ["proc", "talias", "ualias"]


def op(cls, mode="w", file="f1"):
    return {"cls": cls, "mode": mode, "file": file}


def all_ops():
    ops = []
    for cls in CLASSES:
        modes = ("w", "a") if cls in ("out", "err", "all") else ("w",)
        files = ("f1", "f2") if cls in ("out", "err", "all", "in") else ("f1",)
        for m in modes:
            for f in files:
                ops.append(op(cls, m, f))
    return ops


def scenarios(tier, rng):
    scns = []
    ops = all_ops()
    # every documented spelling of every operator, alone, on every stage kind / position / capture form
    for o in ops:
        if o["file"] == "f2":
            continue
        nsp = len(SPELL[(o["cls"], o["mode"] if o["cls"] in ("out", "err", "all") else "w")])
        for sp in range(nsp):
            for kind in KINDS:
                for piped in (False, True):
                    for cap in (False, True):
                        scns.append({"cfg": {"ops": [o], "piped": piped, "captured": cap, "kind": kind}, "spell": [sp], "mid": piped and (sp % 2 == 1)})
    for kind in KINDS:
        for piped in (False, True):
            for cap in (False, True):
                scns.append({"cfg": {"ops": [], "piped": piped, "captured": cap, "kind": kind}, "spell": []})
    # pairs of operators (o>e only alone, see DESIGN): all pairs with the first spelling + sampled spellings
    pair_ops = [o for o in ops if o["cls"] != "o2e"]
    # two operators never name the same file (reading and writing one file at once says nothing about routing)
    pairs = [(a, b) for a in pair_ops for b in pair_ops if not (a["cls"] in ("out", "err", "all", "in") and b["cls"] in ("out", "err", "all", "in") and a["file"] == b["file"])]
    if tier == "quick":
        pairs = rng.sample(pairs, 140)
    for a, b in pairs:
        for kind in KINDS:
            for piped in (False, True):
                cap = rng.random() < 0.5
                scns.append({"cfg": {"ops": [a, b], "piped": piped, "captured": cap, "kind": kind}, "spell": [rng.randrange(12), rng.randrange(12)], "mid": piped and rng.random() < 0.5})
    return scns


def describe(trace, matched):
    st = trace["steps"][0]
    return f"not allowed by Redirect: `{st['obs']['line']}` kind={st['cfg']['kind']}: stdout -> {st['obs']['out']}, stderr -> {st['obs']['err']} {st['obs']['msg'][:120]}"


def run(tier, seed, replay=None):
    res = core.Result(PID, tier, seed)
    rng = random.Random(seed)
    cfg_text = open(os.path.join(tlc.SPECS, "Redirect.cfg")).read()
    mc = {}
    if replay:
        payload = json.load(open(replay))["payload"]
        scns = [payload["meta"]]
    else:
        mc = tlc.model_check(SPEC, cfg_text=cfg_text, coverage=False, timeout=900)
        selftest = {}
        for dev in ("Dev_O2ECaptured", "Dev_UaliasO2ECrash"):
            r = tlc.model_check(SPEC, cfg_text=core.set_deviations(cfg_text, [dev]), expect_ok=False, coverage=False, timeout=900)
            selftest[dev] = r["errors"][:1]
        res.coverage["deviation_selftest"] = selftest
        scns = scenarios(tier, rng)
    traces = pool.run("redirect", scns, hooks=False)
    bad_workers = [t for t in traces if "steps" not in t]
    if bad_workers:
        raise tlc.TLCError("driver failure: " + json.dumps(bad_workers[0])[:3000])
    stats = core.validate_with_findings(res, "RedirectTrace", traces, cfg_text, describe=describe, meta=scns, timeout=3000)
    spellings = len({t["steps"][0]["obs"]["line"].split("'")[-1] if t["cfg"]["kind"] == "proc" else t["steps"][0]["obs"]["line"] for t in traces})
    cov = {
        "states": mc.get("distinct", 1),
        "transitions": mc.get("states", 1),
        "traces_validated_against_impl": stats["validated"],
        "samples": [{"line": t["steps"][0]["obs"]["line"], "out": t["steps"][0]["obs"]["out"], "err": t["steps"][0]["obs"]["err"]} for t in traces[:3]],
        "evaluations": len(traces),
        "distinct_nontrivial": len({t["steps"][0]["obs"]["line"] for t in traces if t["cfg"]["ops"]}),
        "rule": "one case = command line built from a stage kind (external process / threaded alias / unthreadable alias), 0-2 redirect operators in a concrete spelling, with or without a following pipe, run with $() or ![]; both streams write distinct tags and every destination (target files with pre-existing content, next stage's stdin, capture, the shell's fd 1 and fd 2) is read back; non-trivial = at least one operator; distinct by command line",
        "operator_spellings_enumerated": sum(len(v) for v in SPELL.values()),
        "trace_validation": stats,
        "exhaustive": tier == "thorough",
    }
    cov.update(res.coverage)
    core.write_evidence(res, "model_checking", cov, assumptions=[
        "target files always pre-exist with content (so truncation and appending are distinguishable)",
        "`o>e` / `1>&2` is exercised alone (not combined with a second operator)",
        "stdout redirected to a file while a pipe follows is treated as a conflict (reported as an error), as the code does",
    ])
    return core.finish(res)
