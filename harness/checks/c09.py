"""C09 - running a command leaves the shell session as it found it (spec Resources)."""

from __future__ import annotations

import itertools
import json
import os
import random

from harness import core, findings, pool, tlc

PID = "C09"
FORMS = ["bare", "bang", "dollarsq", "dollar", "object", "objectlazy"]
FAULTS = ["none", "redirect_unopenable", "redirect_conflict", "not_found", "alias_raises", "consumer_exits_early", "input_missing"]


def sensible(kinds, fault, at, redirect):
    n = len(kinds)
    if fault == "redirect_unopenable":
        return redirect == at
    if fault == "alias_raises":
        return kinds[at - 1] == "alias"
    if fault == "not_found":
        return kinds[at - 1] == "proc"
    if fault == "consumer_exits_early":
        return n >= 2 and at == n
    if fault in ("input_missing", "none"):
        return at == 1
    if fault == "redirect_conflict":
        return redirect == 0 and at == n
    return True


def universe(tier, rng):
    scns = []
    for n in (1, 2, 3):
        for kinds in itertools.product(("proc", "alias"), repeat=n):
            for fault in FAULTS:
                for at in range(1, n + 1):
                    for redirect in sorted({0, n, at}):
                        if not sensible(kinds, fault, at, redirect):
                            continue
                        if redirect and redirect != n and fault != "redirect_unopenable":
                            continue  # an output redirect in the middle of a pipeline is a conflict, not a shape
                        for form in FORMS:
                            if redirect == n and form in ("dollar", "object", "objectlazy") and fault != "redirect_unopenable":
                                continue
                            scns.append({"kinds": list(kinds), "fault": fault, "at": at, "redirect": redirect, "form": form, "rop": ">" if (n + at) % 2 else ">>", "variant": len(scns)})
                        # the first stage reading a real input file (`cat < in.txt | ...`)
                        if fault in ("none", "not_found", "alias_raises") and redirect in (0, n) and not (fault == "not_found" and at == 1):
                            scns.append({"kinds": list(kinds), "fault": fault, "at": at, "redirect": redirect, "form": FORMS[(n + at + len(scns)) % 3], "rop": ">", "infile": True})
                        # the same shape started in the background (`... &`): the job ends on its own; nothing may stay behind
                        if redirect == 0 and fault in ("none", "not_found", "consumer_exits_early"):
                            scns.append({"kinds": list(kinds), "fault": fault, "at": at, "redirect": 0, "form": "background"})
    # an alias marked unthreadable runs in the shell's own thread (only allowed as a single stage)
    for form in FORMS:
        scns.append({"kinds": ["ualias"], "fault": "none", "at": 1, "redirect": 0, "form": form, "repeat": 3})
    scns.append({"kinds": ["ualias"], "fault": "none", "at": 1, "redirect": 1, "form": "bare", "rop": ">"})
    if tier == "quick":
        for i, s in enumerate(scns):
            if s["redirect"] and s["fault"] in ("none", "alias_raises", "consumer_exits_early") and i % 3 == 0:
                s["rop"] = ("2>", "a>", "e>")[(i // 3) % 3]
        scns = [s for i, s in enumerate(scns) if s["fault"] != "none" or i % 2 == 0]
        # single-stage shapes with a fault are few and cheap: always kept
        always = lambda s: (len(s["kinds"]) == 1 and (s["fault"] != "none" or s["kinds"] == ["ualias"])) or (s["form"] == "background" and len(s["kinds"]) <= 2)
        keep = [s for s in scns if always(s)]
        rest = [s for s in scns if not always(s)]
        scns = keep + rng.sample(rest, min(len(rest), 150))
    else:
        scns += [dict(s, rop=r) for s in scns if s["redirect"] and s["fault"] in ("none", "alias_raises", "consumer_exits_early") for r in ("2>", "a>", "e>")]
        scns += [dict(s, repeat=12) for s in scns if s["fault"] in ("not_found", "consumer_exits_early") and s["form"] in ("bare", "dollar")]
    return scns


def describe(t, matched):
    o = t["steps"][0]["obs"]
    return f"the session is not as the command found it after running `{t['src']}` {t['scn'].get('repeat', 3)} times (fault: {t['scn']['fault']} at stage {t['scn']['at']}): changed {o['kinds']}{'' if o['sigint'] else ' + Ctrl-C no longer interrupts'} {json.dumps(o['diff'])[:600]}"


def slim(t):
    s = t["scn"]
    return {"feat": {"n": len(s["kinds"]), "fault": s["fault"], "at": s["at"], "form": s["form"], "redirect": s["redirect"], "infile": bool(s.get("infile")), "lastkind": s["kinds"][-1], "firstkind": s["kinds"][0], "aliasreader": "alias" in s["kinds"][1:]},
            "steps": [{"cmd": "run", "obs": {"clean": bool(t["steps"][0]["obs"]["clean"])}}]}


def run(tier, seed, replay=None):
    res = core.Result(PID, tier, seed)
    rng = random.Random(seed)
    cfg_text = open(os.path.join(tlc.SPECS, "Resources.cfg")).read()
    mc = {}
    if replay:
        payload = json.load(open(replay))["payload"]
        scns = [payload["trace"]["scn"]]
    else:
        mc = tlc.model_check("Resources", cfg_text=cfg_text, coverage=True, timeout=900)
        if mc.get("never_taken"):
            raise tlc.TLCError(f"vacuity: actions never taken in Resources: {mc['never_taken']}")
        if tier == "thorough":
            # the liveness formulation itself (`Terminates` under weak fairness) on the two-stage instance
            live = tlc.model_check("Resources", cfg_text=open(os.path.join(tlc.SPECS, "Resources_live.cfg")).read(), coverage=False, timeout=900)
            res.coverage["liveness_instance"] = {"distinct": live.get("distinct"), "property": "Terminates", "MaxStages": 2}
        selftest = {}
        for dev in ("Dev_RedirectFailureLeaks", "Dev_NotFoundLeaksEarlierStages", "Dev_EarlyExitLeavesProducer", "Dev_WriterKeptAfterProducerExit", "Dev_BackgroundKeepsConnectingPipes", "Dev_BackgroundAliasKeepsPipes"):
            r = tlc.model_check("Resources", cfg_text=core.set_deviations(cfg_text, [dev]), expect_ok=False, coverage=False, timeout=600)
            selftest[dev] = r["errors"][:1]
        res.coverage["deviation_selftest"] = selftest
        scns = universe(tier, rng)
    out = pool.run("resources", scns, hooks=False, timeout=900, nproc=8)
    bad_workers = [t for t in out if "steps" not in t]
    if bad_workers:
        raise tlc.TLCError("driver failure: " + json.dumps(bad_workers[0])[:3000])
    stats = core.validate_with_findings(res, "ResourcesTrace", out, cfg_text, describe=describe, timeout=3000, project=slim)
    kinds, advisory = {}, {}
    for t in out:
        o = t["steps"][0]["obs"]
        k = "clean" if o["clean"] else "changed:" + ",".join(o["kinds"])
        kinds[k] = kinds.get(k, 0) + 1
        for a in o.get("diagnostics", {}):
            advisory[a] = advisory.get(a, 0) + 1
    for a, n in sorted(advisory.items()):
        eg = [t["src"].replace("\n", " ; ")[:70] for t in out if a in t["steps"][0]["obs"].get("diagnostics", {})][:3]
        print(f"ADVISORY property={PID} {a}: seen in {n} scenario(s) (timing-dependent observation, not part of the verdict), e.g. {eg}")
    cov = {
        "evaluations": len(out),
        "distinct_nontrivial": len({t["src"] for t in out if t["scn"]["fault"] != "none"}),
        "rule": "one case = a pipeline shape (1-3 stages, each an external process or a callable alias (or one alias marked unthreadable); output redirect (>, >>, 2>, a>, e>) on the last stage or none; the first stage reading a real input file or not; run bare, as ![], $[], $(), !() ended or !() lazily, or started in the background with a trailing &) with one fault injected by construction of the command (redirect target unopenable, two conflicting redirections of one stream, input file missing, command not found at stage i, alias raising at stage i, consumer exiting after one byte while the producer writes 3 MB) executed 3 (thorough: also 12) times after one unmeasured warm-up in a loaded session; before and after (settling up to 3 s) the harness snapshots /proc/self/fd with link targets, live threads, /proc/self/task/*/children, cwd, identity of sys.std*, handlers of INT/TSTP/QUIT/WINCH, os.environ and the detyped session environment, and finally sends itself SIGINT (KeyboardInterrupt must be raised); non-trivial = a fault is injected; distinct by command text",
        "samples": [{"src": t["src"], "fault": t["scn"]["fault"], "clean": t["steps"][0]["obs"]["clean"]} for t in out[-3:]],
        "states": mc.get("distinct", 1),
        "transitions": mc.get("states", 1),
        "traces_validated_against_impl": stats["validated"],
        "outcomes": kinds,
        "advisory_observations": advisory,
        "trace_validation": stats,
        "mc_action_coverage": mc.get("coverage"),
        "exhaustive": tier == "thorough",
    }
    cov.update(res.coverage)
    core.write_evidence(res, "fault_enumeration", cov, assumptions=[
        "non-interactive session: terminal ownership (tcgetpgrp) is not observable here and is not checked",
        "faults are injected by construction of the command line (missing binary, unopenable target, raising alias, early-exiting consumer), not by failing system calls",
        "settling: up to 3 s for daemon reader threads and exited children before the after-snapshot is taken",
        "verdict-bearing: descriptor growth, children still running, cwd, environment, Ctrl-C; helper threads still alive, sys.std* identity, runs exceeding 12 s, stale signal handlers and unreaped zombies depend on thread timing the harness does not control and are reported as ADVISORY only",
    ])
    return core.finish(res)
