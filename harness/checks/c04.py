"""C04 - arguments reach the command exactly as written (spec ArgAssembly)."""

from __future__ import annotations

import itertools
import json
import os
import random

from harness import core, findings, pool, tlc
from harness.drivers.argassembly import POOL

PID = "C04"
SPEC = "ArgAssembly"
KINDS = ["word", "quoted", "raw", "triple", "fstr", "inj1", "injN", "injgen", "glued", "envvar", "macro"]
WORD_OK = {"plain", "star", "nonascii"}
MACRO_OK = {"plain", "star", "dollar", "quotes", "nonascii"}
ENVVAR_OK = {"plain", "space", "star", "quotes", "bslash", "newline", "brace", "empty", "nonascii"}


def atoms_all():
    out = []
    for k in KINDS:
        for c in POOL:
            if k == "word" and c not in WORD_OK:
                continue
            if k == "macro" and c not in MACRO_OK:
                continue
            if k == "envvar" and c not in ENVVAR_OK:
                continue
            out.append({"kind": k, "cls": c})
    return out


def scenarios(tier, rng):
    A = atoms_all()
    scns = []
    # every atom alone with every pool string of its class
    for a in A:
        for i in range(len(POOL[a["cls"]])):
            scns.append({"atoms": [a], "pick": [i]})
    nomacro = [a for a in A if a["kind"] != "macro"]
    pairs = [(a, b) for a in nomacro for b in nomacro]
    if tier == "quick":
        pairs = rng.sample(pairs, 1500)
    for a, b in pairs:
        scns.append({"atoms": [a, b], "pick": [rng.randrange(6), rng.randrange(6)]})
    for _ in range(600 if tier == "quick" else 20000):
        n = 3
        scns.append({"atoms": [rng.choice(nomacro) for _ in range(n)], "pick": [rng.randrange(6) for _ in range(n)]})
    return scns


def describe(trace, matched):
    st = trace["steps"][0]
    o = st["obs"]
    return f"not allowed by ArgAssembly: `{o['line']}` strings={o['strings']!r}: alias saw {o['alias_argv']} ; child saw {o['child_argv']}"


def run(tier, seed, replay=None):
    res = core.Result(PID, tier, seed)
    rng = random.Random(seed)
    cfg_text = open(os.path.join(tlc.SPECS, "ArgAssembly.cfg")).read()
    trace_cfg = cfg_text.replace("MaxAtoms = 2", "MaxAtoms = 3")
    mc = {}
    if replay:
        payload = json.load(open(replay))["payload"]
        scns = [payload["meta"]]
    else:
        mc = tlc.model_check(SPEC, cfg_text=cfg_text, coverage=False, timeout=900)
        r = tlc.model_check(SPEC, cfg_text=core.set_deviations(cfg_text, ["Dev_GluedInjectExpanded"]), expect_ok=False, coverage=False, timeout=900)
        res.coverage["deviation_selftest"] = {"Dev_GluedInjectExpanded": r["errors"][:1]}
        scns = scenarios(tier, rng)
    out = pool.run("argassembly", scns, hooks=False)
    bad_workers = [t for t in out if "steps" not in t]
    if bad_workers:
        raise tlc.TLCError("driver failure: " + json.dumps(bad_workers[0])[:3000])
    keep = [(t, s) for t, s in zip(out, scns) if t["steps"]]
    traces = [t for t, _ in keep]
    stats = core.validate_with_findings(res, "ArgAssemblyTrace", traces, trace_cfg, describe=describe, meta=[s for _, s in keep], timeout=3000)
    cov = {
        "states": mc.get("distinct", 1),
        "transitions": mc.get("states", 1),
        "traces_validated_against_impl": stats["validated"],
        "samples": [{"line": t["steps"][0]["obs"]["line"], "strings": t["steps"][0]["obs"]["strings"], "argv": t["steps"][0]["obs"]["alias_argv"]} for t in traces[-3:]],
        "evaluations": len(traces),
        "skipped_unrenderable": len(out) - len(traces),
        "distinct_nontrivial": len({t["steps"][0]["obs"]["line"] + repr(t["steps"][0]["obs"]["strings"]) for t in traces if len(t["atoms"]) >= 2}),
        "rule": "one case = command line of 1-3 argument atoms (bare word, '..', r'..', '''..''', f'..', @(s), @([s,t]), @(generator), pre@(s)post, $VAR, macro tail) concretised with pool strings per payload class (spaces, glob characters, $VAR text, ~, both quote kinds, trailing backslash, newline, braces, empty, non-ASCII), run through a recording callable alias and a real child; non-trivial = at least two atoms; distinct by line + strings",
        "trace_validation": stats,
        "exhaustive": tier == "thorough",
    }
    cov.update(res.coverage)
    core.write_evidence(res, "model_checking", cov, assumptions=[
        "expansion oracle: $VERIFVAR / ${VERIFVAR} replaced by its value, a leading ~ by $HOME; nothing else changes a non-raw literal",
        "glob-looking words match no file in the scratch cwd and therefore stay literal",
    ])
    return core.finish(res)
