"""C12 - history records every command once, in order, and reads it back verbatim
(specs HistStore for the sequential semantics, HistQueue for the flusher/reader ticket queue)."""

from __future__ import annotations

import json
import os
import random

from harness import core, findings, pool, tlc

PID = "C12"


def describe(trace, matched):
    steps = trace["steps"]
    if matched >= len(steps):
        return "trace matched"
    st = steps[matched]
    ops = [(s["cmd"], s["t"], s["rtn"], s["spc"]) if s["cmd"] == "append" else (s["cmd"],) for s in steps[: matched + 1]]
    obs = st["obs"]
    if st["cmd"] == "read":
        ref = None
        bad = {k: v for k, v in obs["views"].items()}
        obs = {"len": obs["len"], "views": bad}
    return f"step {matched + 1} not allowed by HistStore: conf={trace['conf']} pool={trace['pool']} ops={ops} observed={json.dumps(obs)[:900]}"


def weighted(n, rng):
    scns = []
    for k in range(n):
        backend = "json" if k % 3 else "sqlite"
        opts = rng.choice([[], [], ["ignoredups"], ["ignoreerr"], ["ignorespace"], ["ignoredups", "ignoreerr", "ignorespace"]])
        conf = {"buf": rng.choice([1, 2, 3]), "opts": sorted(opts), "backend": backend}
        steps = []
        for _ in range(rng.randint(3, 9)):
            r = rng.random()
            if r < 0.62:
                steps.append({"cmd": "append", "t": rng.choice(["a", "b"]), "rtn": rng.choice([0, 0, 1]), "spc": rng.random() < 0.2})
            elif r < 0.75:
                steps.append({"cmd": "flush"})
            else:
                steps.append({"cmd": "read"})
        steps += [{"cmd": "read"}, {"cmd": "flush"}, {"cmd": "read"}]
        scns.append({"conf": conf, "pool": k, "steps": steps})
    return scns


def from_behaviours(behs, rng):
    scns = []
    for i, b in enumerate(behs):
        steps = []
        for s in b[1:]:
            a = s["act"]
            steps.append({"cmd": a["cmd"], "t": a["t"], "rtn": a["rtn"], "spc": a["spc"]})
        steps += [{"cmd": "read"}, {"cmd": "flush"}, {"cmd": "read"}]
        c = b[0]["conf"]
        scns.append({"conf": {"buf": c["buf"], "opts": sorted(c["opts"]), "backend": c["backend"]}, "pool": i, "steps": steps})
    return scns


QUEUE_SETS = [(["F1", "F2"], ["R1"]), (["F1"], ["R1", "R2"]), (["F1", "X1"], ["R1"]), (["F1", "F2", "X1"], [])]


def queue_part(res, tier, rng):
    """HistQueue: TLC decides the design for each ticket set (no lost wake-up, every ticket served);
    every enqueue order x acquisition order is replayed on a real JsonHistory through the guarded
    schedule points."""
    import itertools

    spec_cfg = open(os.path.join(tlc.SPECS, "HistQueue.cfg")).read()
    info = {"tlc": {}, "schedules": 0}
    scns = []
    for flushers, readers in QUEUE_SETS:
        cfg = spec_cfg.replace('Flushers = {"F1", "F2"}', "Flushers = " + core.tla_set(flushers)).replace('Readers = {"R1"}', "Readers = " + core.tla_set(readers))
        mc = tlc.model_check("HistQueue", cfg_text=cfg, coverage=True, timeout=600)
        info["tlc"]["+".join(flushers + readers)] = {"states": mc.get("distinct"), "transitions": mc.get("states")}
        tickets = flushers + readers
        for enq in itertools.permutations(tickets):
            # batches are created in their natural order (F1 before F2 before the exit flush)
            fl = [t for t in enq if t in flushers]
            if fl != flushers:
                continue
            for acq in itertools.permutations(tickets):
                scns.append({"enqueue": list(enq), "acquire": list(acq)})
    r = tlc.model_check("HistQueue", cfg_text=core.set_deviations(spec_cfg, ["Dev_ReaderNoNotify"]), expect_ok=False, coverage=False, timeout=600)
    info["deviation_selftest"] = {"Dev_ReaderNoNotify": r["errors"][:1]}
    if tier == "quick":
        rng.shuffle(scns)
        scns = scns[:60]
    out = pool.run("histqueue", scns, hooks=True, timeout=900)
    bad_workers = [t for t in out if "obs" not in t]
    if bad_workers:
        raise tlc.TLCError("driver failure: " + json.dumps(bad_workers[0])[:3000])
    for t in out:
        o = t["obs"]
        info["schedules"] += 1
        if o["stuck"] or o["queue_left"] or not o["reads_ok"] or not o["disk_complete"] or not o["disk_in_append_order"]:
            res.violation(f"history ticket queue: enqueue order {t['enqueue']} with acquisition order {t['acquire']}: stuck={o['stuck']} queue_left={o['queue_left']} "
                          f"reads_ok={o['reads_ok']} disk={o['disk']}", {"queue_schedule": t})
    info["sample"] = out[0] if out else None
    return info


def run(tier, seed, replay=None):
    res = core.Result(PID, tier, seed)
    rng = random.Random(seed)
    cfg_text = open(os.path.join(tlc.SPECS, "HistStore.cfg")).read()
    big_cfg = cfg_text.replace("MaxLen = 4", "MaxLen = 8")
    trace_cfg = cfg_text.replace("MaxLen = 4", "MaxLen = 40")
    mc = {}
    if replay:
        payload = json.load(open(replay))["payload"]
        scns = [{"conf": payload["trace"]["conf"], "pool": payload["trace"]["pool"], "steps": payload["trace"]["steps"]}]
    else:
        mc = tlc.model_check("HistStore", cfg_text=cfg_text, coverage=True, timeout=900)
        if mc.get("never_taken"):
            raise tlc.TLCError(f"vacuity: actions never taken in HistStore: {mc['never_taken']}")
        behs, _ = tlc.simulate_behaviours("HistStore", big_cfg, depth=12 if tier == "quick" else 16, num=800 if tier == "quick" else 20000, seed=seed + 1, timeout=900)
        scns = from_behaviours(behs, rng) + weighted(700 if tier == "quick" else 15000, rng)
    traces = pool.run("histstore", scns, hooks=False)
    bad_workers = [t for t in traces if "steps" not in t]
    if bad_workers:
        raise tlc.TLCError("driver failure: " + json.dumps(bad_workers[0])[:3000])
    stats = core.validate_with_findings(res, "HistStoreTrace", traces, trace_cfg, describe=describe, timeout=3000)
    qinfo = queue_part(res, tier, rng) if not replay else {}
    reads = sum(1 for t in traces for s in t["steps"] if s["cmd"] == "read")
    cov = {
        "states": mc.get("distinct", 1),
        "transitions": mc.get("states", 1),
        "traces_validated_against_impl": stats["validated"],
        "samples": [[(s["cmd"], s["t"], s["rtn"], s["spc"], s["obs"].get("len")) for s in t["steps"]][:10] for t in traces[:2]],
        "evaluations": reads,
        "distinct_nontrivial": len({json.dumps([t["conf"], t["pool"] % 5] + [(s["cmd"], s["t"], s["rtn"], s["spc"]) for s in t["steps"]]) for t in traces
                                    if any(s["cmd"] == "read" and s["obs"]["len"] >= 2 for s in t["steps"])}),
        "rule": "scenario = append/flush/read sequence on a real JsonHistory (buffer sizes 1-3) or SqliteHistory under a $HISTCONTROL setting with texts from a pool (multi-line, non-BMP, quotes, control characters, trailing blanks); each read samples len(), positive and negative indexes, slices in both directions, iteration, entry objects, items() and the decoded store (lazy index, whole-file JSON, table); non-trivial = a read of at least 2 entries; distinct by configuration + pool + operations",
        "trace_validation": stats,
        "mc_action_coverage": mc.get("coverage"),
        "ticket_queue": qinfo,
        "exhaustive": False,
    }
    core.write_evidence(res, "model_checking", cov, assumptions=[
        "reads happen at quiescent points (flusher queue drained)",
        "ticket-queue schedules are controlled at one point per ticket (just before it takes the condition); the settle time between releases is 40 ms, the verdict is taken from the final state (all tickets served within 15 s, batches on disk in append order)",
        "SQLite drops trailing whitespace of the text (as the property states)",
    ])
    return core.finish(res)
