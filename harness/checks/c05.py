"""C05 - chains, exit codes and fail-fast follow the documented truth table (spec Chain)."""

from __future__ import annotations

import itertools
import json
import os
import random

from harness import core, findings, pool, tlc

PID = "C05"
SPEC = "Chain"
FORMS = ["bare", "bang", "dollarsq", "dollar", "object"]
DECS = ["none", "raise", "ignore"]
KINDS = ["cmd", "py"]


def leaf(rc, form="bare", dec="none", kind="cmd", out=True, pipe=False, inner=False):
    return {"rc": rc, "form": form, "dec": dec, "kind": kind, "out": out, "pipe": pipe, "inner": inner}


def all_leaves():
    return [leaf(rc, f, d, k, o) for rc in (0, 1) for f in FORMS for d in DECS for k in KINDS for o in (True, False) if not (f == "object" and d == "raise")]


def configs(tier, rng):
    L = all_leaves()
    flags = [(r, c) for r in (True, False) for c in (True, False)]
    cfgs = []
    # 1 leaf: everything (standalone object form is consumed by the harness, see render)
    for l in L:
        for r, c in flags:
            cfgs.append({"leaves": [l], "ops": [], "raise": r, "cmdraise": c})
            cfgs.append({"leaves": [dict(l, inner=True)], "ops": [], "raise": r, "cmdraise": c})
    # 2 leaves: every pair (thorough) / seeded sample (quick)
    pairs = [(a, b, op, r, c) for a in L for b in L for op in ("and", "or") for r, c in flags]
    if tier == "quick":
        pairs = rng.sample(pairs, 2500)
    for a, b, op, r, c in pairs:
        cfgs.append({"leaves": [dict(a, inner=rng.random() < 0.3), dict(b, inner=rng.random() < 0.3)], "ops": [op], "raise": r, "cmdraise": c})
    # 3 and 4 leaves, piped leaves: sampled
    n3 = 1200 if tier == "quick" else 40000
    for _ in range(n3):
        n = rng.choice([3, 3, 4])
        leaves = [dict(rng.choice(L), inner=rng.random() < 0.3) for _ in range(n)]
        if rng.random() < 0.25:
            i = rng.randrange(n)
            # at most one piped leaf (its stages share the alias `cp`), never decorated
            if leaves[i]["form"] in ("bare", "bang") and leaves[i]["dec"] == "none":
                leaves[i]["pipe"] = True
        r, c = rng.choice(flags)
        cfgs.append({"leaves": leaves, "ops": [rng.choice(["and", "or"]) for _ in range(n - 1)], "raise": r, "cmdraise": c})
    return cfgs


def describe(trace, matched):
    st = trace["steps"][0]
    c = st["cfg"]
    return f"configuration not allowed by Chain: `{st['obs']['src']}` raise={c['raise']} cmdraise={c['cmdraise']} codes={[l['rc'] for l in c['leaves']]} outputs={[l['out'] for l in c['leaves']]} observed ran={st['obs']['ran']} raised={st['obs']['exc'] or False} marker={st['obs']['marker']}"


def run(tier, seed, replay=None):
    res = core.Result(PID, tier, seed)
    rng = random.Random(seed)
    cfg_text = open(os.path.join(tlc.SPECS, "Chain_quick.cfg" if tier == "quick" else "Chain.cfg")).read()
    trace_cfg = open(os.path.join(tlc.SPECS, "Chain.cfg")).read().replace("MaxLeaves = 2", "MaxLeaves = 4")
    mc = {}
    if replay:
        payload = json.load(open(replay))["payload"]
        cfgs = [payload["trace"]["steps"][0]["cfg"]]
    else:
        mc = tlc.model_check(SPEC, cfg_text=cfg_text, coverage=False, timeout=6000)
        selftest = {}
        for dev in ("Dev_ValueTruthiness", "Dev_CmdRaiseDependsOnParsePath"):
            r = tlc.model_check(SPEC, cfg_text=core.set_deviations(open(os.path.join(tlc.SPECS, "Chain_quick.cfg")).read(), [dev]), expect_ok=False, coverage=False, timeout=900)
            selftest[dev] = r["errors"][:1]
        res.coverage["deviation_selftest"] = selftest
        cfgs = configs(tier, rng)
    scns = [{"cfg": c} for c in cfgs]
    if not replay:
        # end-to-end subset: real xonsh processes with real children, binds the exit status
        e2e = [c for c in cfgs if all(not l.get("pipe") for l in c["leaves"]) and 2 <= len(c["leaves"]) <= 3]
        rng.shuffle(e2e)
        for i, c in enumerate(e2e[: 48 if tier == "quick" else 600]):
            # (the end-to-end commands run no inner command of their own: the configuration must say so,
            #  or the model expects the inner pipeline to be what `$()` / `$[]` see)
            c = dict(c, leaves=[dict(l, inner=False) for l in c["leaves"]])
            scns.append({"cfg": c, "e2e": ["command", "script", "command-bigrc", "script-bigrc"][i % 4]})
        # flags set by the compiled source itself (the environment holds the opposite at compile time)
        late = list(cfgs)
        rng.shuffle(late)
        for c in late[: 400 if tier == "quick" else 8000]:
            scns.append({"cfg": c, "late": True})
    traces = pool.run("chain", scns, hooks=False)
    bad_workers = [t for t in traces if "steps" not in t]
    if bad_workers:
        raise tlc.TLCError("driver failure: " + json.dumps(bad_workers[0])[:3000])
    stats = core.validate_with_findings(res, "ChainTrace", traces, trace_cfg, describe=describe, timeout=3000)
    cov = {
        "states": mc.get("distinct", 1),
        "transitions": mc.get("states", 1),
        "traces_validated_against_impl": stats["validated"],
        "samples": [{"src": t["steps"][0]["obs"]["src"], "flags": [t["cfg"]["raise"], t["cfg"]["cmdraise"]], "codes": [l["rc"] for l in t["cfg"]["leaves"]], "obs": t["steps"][0]["obs"]} for t in traces[-3:]],
        "evaluations": len(traces),
        "distinct_nontrivial": len({t["steps"][0]["obs"]["src"] + json.dumps([t["cfg"]["raise"], t["cfg"]["cmdraise"], [(l["rc"], l["out"]) for l in t["cfg"]["leaves"]]]) for t in traces if len(t["cfg"]["leaves"]) >= 2}),
        "rule": "one case = chain configuration (1-4 leaves joined by &&/||, per leaf: exit code, capture form bare/![]/$[]/$()/!(), decorator none/@error_raise/@error_ignore, Python-parsable or command-only text, output or none, optionally a two-stage pipeline; both raise flags) rendered to xonsh source with scripted callable aliases and executed; non-trivial = at least two leaves; distinct by source + flags + codes",
        "trace_validation": stats,
        "end_to_end_processes": sum(1 for t in traces if t["steps"][0]["obs"]["src"].startswith("[")),
        "exhaustive": tier == "thorough",
    }
    cov.update(res.coverage)
    core.write_evidence(res, "model_checking", cov, assumptions=[
        "commands are callable aliases returning scripted codes (real children in the thorough tier's end-to-end subset)",
        "under $XONSH_SUBPROC_CMD_RAISE_ERROR a chain operand defers to the chain (the code's documented intent); a standalone command raises at once",
        "a standalone !() is consumed (`.rtn`) so that the command has run when the statement ends",
    ])
    return core.finish(res)
