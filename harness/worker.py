"""Worker process: imports a driver module and runs scenarios, one JSON result per line."""

import importlib
import json
import os
import sys
import traceback


def main():
    driver, inp, outp, wd = sys.argv[1:5]
    mod = importlib.import_module("harness.drivers." + driver)
    with open(inp) as fh:
        scenarios = json.load(fh)
    os.chdir(wd)
    ctx = mod.setup(wd)
    with open(outp, "w") as out:
        for scn in scenarios:
            try:
                res = mod.run(ctx, scn)
            except BaseException as e:  # noqa: BLE001 - report, do not die
                res = {"driver_exception": f"{type(e).__name__}: {e}", "tb": traceback.format_exc()[-3000:]}
            out.write(json.dumps(res) + "\n")
            out.flush()
    sys.stdout.flush()
    os._exit(0)


if __name__ == "__main__":
    main()
