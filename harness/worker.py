"""Worker process: imports a driver module and runs scenarios, one JSON result per line."""

import importlib
import json
import os
import sys
import traceback


def main():
    driver, inp, outp, wd = sys.argv[1:5]
    mod = importlib.import_module("harness.drivers." + driver)
    with open(inp) as fh:
        scenarios = json.load(fh)
    os.chdir(wd)
    ctx = mod.setup(wd)
    import threading

    limit = float(os.environ.get("VERIF_SCENARIO_LIMIT", getattr(mod, "SCENARIO_LIMIT", 240)))
    with open(outp, "w") as out:
        for scn in scenarios:
            # a scenario that never returns (a wedged pipeline inside the code under test) must not hold the
            # whole check until the pool's timeout: the worker ends itself, the parent re-runs what is left
            watchdog = threading.Timer(limit, lambda: os._exit(97))
            watchdog.daemon = True
            watchdog.start()
            try:
                res = mod.run(ctx, scn)
            except BaseException as e:  # noqa: BLE001 - report, do not die
                res = {"driver_exception": f"{type(e).__name__}: {e}", "tb": traceback.format_exc()[-3000:]}
            finally:
                watchdog.cancel()
            out.write(json.dumps(res) + "\n")
            out.flush()
    sys.stdout.flush()
    os._exit(0)


if __name__ == "__main__":
    main()
