"""known_findings.json: committed, never written at run time.

Entries: {"id", "property", "status": "open" | "fixed", "deviation" (model-decided) or
"signature" (generator-decided), "what", "witness", "commit" (fixed only)}.
Only *open* entries suppress anything; a fixed entry is documentation."""

from __future__ import annotations

import json
import os

_PATH = os.path.join(os.path.dirname(os.path.dirname(os.path.abspath(__file__))), "known_findings.json")
_cache = None


def load():
    global _cache
    if _cache is None:
        with open(_PATH) as fh:
            _cache = json.load(fh)["findings"]
    return _cache


def open_findings(pid):
    return [f for f in load() if f["property"] == pid and f["status"] == "open"]


def open_deviations(pid):
    return sorted(f["deviation"] for f in open_findings(pid) if "deviation" in f)


def open_signatures(pid):
    return {f["signature"]: f for f in open_findings(pid) if "signature" in f}


def by_deviation(pid, name):
    for f in open_findings(pid):
        if f.get("deviation") == name:
            return f
    raise KeyError(name)


def by_id(fid):
    for f in load():
        if f["id"] == fid:
            return f
    raise KeyError(fid)
