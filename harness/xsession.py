"""In-process xonsh session helpers used by the drivers (run under /venv/bin/python with
PYTHONPATH=/repo so that the *working tree* is what gets imported)."""

from __future__ import annotations

import io
import os
import sys


def assert_repo_import():
    import xonsh

    where = os.path.dirname(os.path.abspath(xonsh.__file__))
    if not where.startswith("/repo/"):
        raise RuntimeError(f"xonsh imported from {where}, expected /repo/xonsh")


_loaded = False


def load(extra_env=None, interactive=False):
    """(Re)load a fresh session.  Returns XSH."""
    global _loaded
    assert_repo_import()
    from xonsh.built_ins import XSH
    from xonsh.environ import Env, default_env
    from xonsh.execer import Execer

    if _loaded:
        try:
            XSH.unload()
        except Exception:
            pass
    base = default_env()
    env = Env(base)
    execer = Execer()
    XSH.load(ctx={}, execer=execer, env=env)
    _loaded = True
    XSH.env["XONSH_INTERACTIVE"] = interactive
    XSH.env["XONSH_SHOW_TRACEBACK"] = False
    XSH.env["UPDATE_OS_ENVIRON"] = False
    if extra_env:
        for k, v in extra_env.items():
            XSH.env[k] = v
    return XSH


def run_alias(argv):
    """Run a builtin (callable alias) command line through the real subprocess machinery,
    capturing its outcome.  Returns (rtn, out, err)."""
    from xonsh.procs.specs import run_subproc

    p = run_subproc([list(argv)], captured="object")
    p.end()
    out = p.output if isinstance(p.output, str) else (p.output or b"").decode(errors="replace")
    err = p.errors
    if isinstance(err, bytes):
        err = err.decode(errors="replace")
    return p.rtn, out, err or ""


def hard_exit(code=0):
    sys.stdout.flush()
    sys.stderr.flush()
    os._exit(code)
