"""A corpus of valid Python programs for C01, taken from the syntax-oriented part of CPython's own
test suite as installed with the interpreter that runs the checks (Lib/test/test_grammar.py,
test_patma.py, test_fstring.py, ...): every statement of those files at any nesting depth (dedented,
at most 30 lines) and every string constant in them that is itself a Python program (the files keep
many snippets as strings: exec_tests in test_ast, the round-trip sources of test_unparse ...).

Membership is decided by ast.parse at check time; nothing here is copied into /verif.  When the
interpreter was installed without its test package the corpus is empty (the check says so)."""

from __future__ import annotations

import ast
import hashlib
import os
import sysconfig
import textwrap
import warnings

FILES = [
    "test_grammar", "test_patma", "test_fstring", "test_syntax", "test_named_expressions", "test_unpack_ex", "test_type_params",
    "test_type_aliases", "test_except_star", "test_string_literals", "test_genexps", "test_listcomps", "test_dictcomps", "test_setcomps",
    "test_coroutines", "test_generators", "test_positional_only_arg", "test_keywordonlyarg", "test_with", "test_decorators", "test_unparse",
    "test_ast", "test_augassign", "test_extcall", "test_raise", "test_scope", "test_class", "test_global", "test_yield_from",
    "test_int_literal", "test_complex", "test_slice", "test_compare", "test_unary", "test_binop", "test_tokenize",
    "test_exceptions", "test_print", "test_lambda", "test_opcodes", "test_compile", "test_dis", "test_peepholer", "test_symtable",
    "test_asyncgen", "test_pep646_syntax", "test_exception_variations", "test_unicode_identifiers", "test_utf8source", "test_contextlib",
]
# files whose string constants are searched for embedded programs
STRING_FILES = {"test_grammar", "test_patma", "test_fstring", "test_syntax", "test_named_expressions", "test_type_params", "test_type_aliases", "test_except_star",
                "test_coroutines", "test_generators", "test_positional_only_arg", "test_unparse", "test_ast", "test_exceptions", "test_compile", "test_dis",
                "test_peepholer", "test_symtable", "test_pep646_syntax", "test_string_literals", "test_tokenize"}
MAX_LINES, MAX_CHARS = 30, 1600


def key(text):
    return "corpus-" + hashlib.sha1(text.encode("utf-8", "surrogatepass")).hexdigest()[:12]


def _accepts(text):
    try:
        with warnings.catch_warnings():
            warnings.simplefilter("ignore")
            t = ast.parse(text)
        return bool(t.body)
    except (SyntaxError, ValueError, RecursionError, MemoryError):
        return False


def test_dir():
    d = os.path.join(sysconfig.get_paths()["stdlib"], "test")
    return d if os.path.isdir(d) else None


def load():
    """[(key, text, origin)] - deterministic order, duplicates removed."""
    d = test_dir()
    if d is None:
        return []
    out, seen = [], set()

    def add(text, origin):
        if not text.strip() or len(text) > MAX_CHARS or text.count("\n") >= MAX_LINES:
            return
        if "\x00" in text:
            return
        try:
            text.encode("utf-8")
        except UnicodeEncodeError:
            return
        if not text.endswith("\n"):
            text += "\n"
        if text in seen:
            return
        seen.add(text)
        out.append((key(text), text, origin))

    for name in dict.fromkeys(FILES):
        path = os.path.join(d, name + ".py")
        if not os.path.exists(path):
            continue
        try:
            with open(path, encoding="utf-8") as fh:
                src = fh.read()
            with warnings.catch_warnings():
                warnings.simplefilter("ignore")
                tree = ast.parse(src)
        except (OSError, SyntaxError, UnicodeDecodeError, ValueError):
            continue
        for node in ast.walk(tree):
            if isinstance(node, ast.stmt):
                seg = ast.get_source_segment(src, node, padded=True)
                if seg is None:
                    continue
                decos = getattr(node, "decorator_list", None)
                if decos:
                    continue  # the segment of a decorated definition starts at `def`: the enclosing statement covers it
                add(textwrap.dedent(seg), name)  # (CPython decides membership again in the driver)
            elif name in STRING_FILES and isinstance(node, ast.Constant) and isinstance(node.value, str):
                s = node.value
                if 3 <= len(s) <= MAX_CHARS and any(c in s for c in " (=:[") and not s.lstrip().startswith(">>>"):
                    s2 = textwrap.dedent(s).strip("\n")
                    if s2 and _accepts(s2):
                        add(s2, name + ":str")
    return out
