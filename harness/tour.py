"""Transition tours over a state graph dumped from TLC: every edge of the model is placed in
at least one scenario (a path from an initial state), so that each transition of the small model
becomes an implementation test."""

from __future__ import annotations

import collections
import json


def _nearest(cur, out, edges, uncovered_at, want, budget):
    """Shortest edge path (<= budget, <= 6) from cur to a state with an uncovered edge."""
    if budget <= 0:
        return None
    seen = {cur: None}
    dq = collections.deque([(cur, 0)])
    while dq:
        s, d = dq.popleft()
        if d >= min(budget, 6):
            continue
        for i in out.get(s, ()):
            t = edges[i][2]
            if t in seen:
                continue
            seen[t] = (s, i)
            lst = uncovered_at.get(t)
            if lst and any(j in want for j in lst):
                path = []
                while seen[t] is not None:
                    t, j = seen[t]
                    path.append(j)
                path.reverse()
                return path
            dq.append((t, d + 1))
    return None


def plan(inits, edges, *, max_len=30, rng=None, edge_limit=None):
    """Greedy edge-covering tours.  Returns list of scenarios; a scenario is
    (init_key, [edge index, ...]).  With edge_limit only that many (randomly chosen)
    edges are required to be covered (quick tier)."""
    out = collections.defaultdict(list)
    for i, (s, _lab, t) in enumerate(edges):
        out[s].append(i)
    # shortest paths from the initial states (BFS tree)
    parent = {}
    dq = collections.deque()
    for k in inits:
        parent[k] = None
        dq.append(k)
    while dq:
        s = dq.popleft()
        for i in out.get(s, ()):
            t = edges[i][2]
            if t not in parent:
                parent[t] = (s, i)
                dq.append(t)

    def path_to(s):
        p = []
        while parent[s] is not None:
            s, i = parent[s]
            p.append(i)
        p.reverse()
        return s, p

    want = set(range(len(edges)))
    if edge_limit is not None and edge_limit < len(edges):
        idx = list(range(len(edges)))
        rng.shuffle(idx)
        want = set(idx[:edge_limit])
    want = {i for i in want if edges[i][0] in parent}
    uncovered_at = collections.defaultdict(list)
    for i in want:
        uncovered_at[edges[i][0]].append(i)
    scenarios = []
    order = sorted(uncovered_at, key=lambda s: len(path_to(s)[1]))
    for s0 in order:
        while uncovered_at.get(s0):
            init, path = path_to(s0)
            cur = s0
            steps = list(path)
            for i in path:
                if i in want:
                    want.discard(i)
            # walk: prefer uncovered edges; stop when none here or too long
            while len(steps) < max_len:
                cands = uncovered_at.get(cur) or []
                while cands and cands[-1] not in want:
                    cands.pop()
                if not cands:
                    # nowhere to go here: walk to the nearest state that still has uncovered edges
                    hop = _nearest(cur, out, edges, uncovered_at, want, max_len - len(steps) - 1)
                    if hop is None:
                        break
                    for i in hop:
                        steps.append(i)
                        cur = edges[i][2]
                    continue
                # self-loops first (they do not move us away from other uncovered edges)
                pick = None
                for j in range(len(cands) - 1, -1, -1):
                    if cands[j] in want and edges[cands[j]][2] == cur:
                        pick = cands.pop(j)
                        break
                if pick is None:
                    pick = cands.pop()
                if pick not in want:
                    continue
                want.discard(pick)
                steps.append(pick)
                cur = edges[pick][2]
            scenarios.append((init, steps))
            uncovered_at[s0] = [i for i in uncovered_at[s0] if i in want]
    return scenarios
