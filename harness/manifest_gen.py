"""Regenerates MANIFEST.json from the table below (keeps it valid at all times)."""

import json
import os

VERIF = os.path.dirname(os.path.dirname(os.path.abspath(__file__)))

CHECKS = {
    "C09": dict(
        category="fault_enumeration",
        technique="TLA+ spec Resources (ownership ledger of one pipeline run: redirect handles, pipe ends, capture pipes, helper threads, children, swapped handlers; build / wire / start / drain stage by stage with the write end behind each finished producer released / close, and for a background pipeline release-at-start / wait; a fault choice at every step) checked by TLC for LeavesNothing on every path; every pipeline shape x injected fault executed repeatedly in a real session between two snapshots of the process state; outcomes validated against ResourcesTrace by TLC",
        text="TLC enumerates every path out of a pipeline run of up to three stages - normal end, redirect target unopenable, input missing, command not found at stage i after earlier stages were started, alias raising at stage i, consumer leaving early - and checks that nothing stays owned and the handlers are the original ones at quiescence (and refutes it with the listed deviations enabled). Each shape (process / callable-alias stages, six capture forms, output redirects) is then run for real 3 (thorough: also 12) times after a warm-up with the fault injected by construction of the command, and /proc/self/fd (with link targets), running children, cwd, os.environ, the session environment and the effect of a self-sent SIGINT are compared before and after, after garbage collection and up to 3 s of settling; only growth counts. Fault enumeration is the right level: the failure modes of each stage are finite and enumerated; what the real system calls do is observed, not modelled.",
        design_ref="3/C09, A.5",
        note="Faults by construction of the command, not by failing system calls; non-interactive session (terminal ownership not observable). Helper threads still alive, sys.std* identity, runs exceeding the time limit, stale handlers and zombies depend on thread timing the harness does not control and are reported as ADVISORY only. Two descriptor leaks are known findings (command not found at a later stage; background commands with a callable-alias stage); one defect (background pipeline of child processes never ending) was repaired by a fix: commit.",
    ),
    "C01": dict(
        category="exploration",
        technique="TLA+ spec PyGrammar over production tables generated from harness/pygrammar.py (421 named productions of the Python 3.12 grammar, slot kinds, well-formed derivations, table sanity as ASSUMEs) checked by TLC; every derivation - each production alone in 14 layouts and 3 modes, every (parent, slot, child) nesting, depth-3 nestings from fixed random streams, and every statement / embedded program of the syntax-oriented files of CPython's own test suite as installed (about 19 000 texts) - rendered to source, parsed by CPython (oracle for membership and tree) and by xonsh's parser on an LALR table regenerated from the working tree; outcomes validated against PyGrammarTrace by TLC, failures explained only by listed productions / nestings (generated module PyGrammarKnown)",
        text="The model contributes the enumerated, structured universe (about 1.9 x 10^5 distinct programs in the thorough tier, 4 x 10^4 in the quick tier) and the judgement `CPython accepts => xonsh accepts, same tree, compiles`; the decision for each program is the differential comparison with CPython's own parser after location-free normalisation that keeps node kinds, every identifier-bearing field, constants by type and value, contexts, operators, arity and order (a strict comparison, unlike the suite's nodes_equal). A failing derivation is accepted only if it contains a production, nesting or layout listed in known_findings_c01.json (written by a triage tool from a complete run on the pinned tree); any other failure is a violation.",
        design_ref="3/C01, A.2",
        note="Trusts CPython 3.12 as oracle and TLC for the per-derivation judgement; bounded nesting depth 3, fixed identifier pools; exec/single input is newline-terminated as Execer does. About 430 smallest failing derivations and 291 corpus texts the pinned parser gets wrong are listed findings (known_findings_c01.json).",
    ),
    "C06": dict(
        category="model_checking",
        technique="TLA+ spec Capture (writer / pipe / pump thread / copier thread with its four-step append on a buffer with one shared file position / polling reader; all interleavings) checked by TLC for PrefixAlways, Complete, BufferExact, EOFOnlyAfterAll, NoDeadlock and Termination under per-thread fairness; real captured commands run while the schedule points of the capture path delay chosen threads; the value the caller receives judged by Capture!ObsJudge (CaptureObsTrace) and the recorded schedule-point events validated against CaptureTrace by TLC",
        text="TLC decides the design for every interleaving of the four threads at the granularity of the code's own steps (and refutes it when the reader may run inside the copier's append - the defect this check found and /repo now repairs). The code is bound in two ways: hundreds of real captures (8 payload kinds x 10 sizes around the 1024-byte read size and the 64 KiB pipe buffer x chunkings, exit codes and timings x 6 stage compositions x threaded/unthreaded/default x $(), !().out/.raw_out/.rtn, iteration) run while one or two of 13 schedule points are delayed, each compared byte for byte with what the final stage was told to write, with a pipe standing in for the terminal that must stay empty; and the events recorded at the schedule points of the threaded runs must be a behaviour of CaptureTrace (bytes conserved pipe -> queue -> buffer -> caller, append never interleaved, saved position never rewound, drained only when everything put was written).",
        design_ref="3/C06",
        note="Trusts TLC; schedules are perturbed by delays at the hook points rather than fully controlled (hook guard XONSH_XONSH_VERIF=1); hang = 60 s. Three defects repaired (fix: commits: reader inside the copier's append, per-read decoding of multi-byte characters / CRLF, lone CR inside a line), two text-view defects about escape sequences are known findings.",
    ),
    "C17": dict(
        category="model_checking",
        technique="TLA+ spec FmtState (the formatter as a one-pass state machine over token and gap classes: bracket depth, macro modes, subprocess-statement flag, pending blank lines; two passes) checked by TLC for Skeleton, Idempotent, BlankCap over every token stream up to length 3-4; thousands of real sources assembled from statement templates x layouts formatted by the real formatter, output parsed by xonsh's own parser and compared with the input's tree, comments compared, output re-formatted; verdicts validated against FmtStateTrace by TLC; rejected inputs driven through the command-line entry point",
        text="TLC shows on the model why one pass is enough: every decision depends on the token skeleton and on gaps the pass leaves alone, so the skeleton is re-emitted unchanged and a second pass is the identity. The binding then runs the real formatter on >5k (quick) / >40k (thorough) sources - every statement template (Python simple and compound statements, subprocess lines, alias/function/subprocess macros, multi-line strings and f-strings, comments) in every gap layout, alone and nested to depth 3 with indent units tab/2/4/8, blank-line runs, trailing blanks, CRLF, missing final newline - and requires parse(format(s)) == parse(s) with xonsh's own three-phase parser (string constants, subprocess arguments and macro bodies are constants of that tree), equal comment sequences, and format(format(s)) == format(s); tokenizer-rejected inputs must fail with a non-zero exit and leave the file untouched.",
        design_ref="3/C17",
        note="Trusts TLC and xonsh's own parser as the meaning oracle (names of the Python templates are bound, command words are not); tab characters between subprocess words, a tab right before `#`, and control characters inside a line are not explored (xonsh's own lexer is inconsistent there). Fourteen formatter defects were repaired (fix: commits), seven are known findings.",
    ),
    "C18": dict(
        category="model_checking",
        technique="TLA+ spec Quote (the judgement Complete(name, opening style, typed, closing-quote-after) -> reads back; reference of which quoting styles can denote a name; named deviations keyed on name features) checked by TLC over every name up to length 3 of an 18-symbol alphabet; every name becomes a real file/directory, the real completer's insertion is spliced into the line and the line is executed with a recording alias; outcomes validated against QuoteTrace by TLC; completion-context analyser run on every cursor of hostile and completed lines",
        text="TLC checks ReadsBack and Satisfiable on Quote and, as a self-test, refutes ReadsBack with each listed deviation enabled; the real path completer is then exercised on every name up to length 2 (quick) / 3 (thorough) over 17 symbols plus thousands of longer names over 37 symbols (spaces, both quotes, $, backslash, newline/tab, !, glob and shell metacharacters, leading ~ - # = :, keywords), five opening-quote styles, typed prefixes, closing quote already present, files and directories - and the completed line is *executed*, so an expected string that is itself wrong cannot hide; a failing case must be explained by a listed deviation whose enabling condition (features of the name and opening style) holds, otherwise it is a violation. The analyser is run on >10k (text, cursor) pairs: no exception, prefix/suffix reproduce the text.",
        design_ref="3/C18",
        note="Trusts TLC, the splice rule line[:cursor-prefix_len]+completion+line[cursor:], and executing the line as the meaning of the inserted text; names without `/` and NUL; ten quoting / word-splitting defect classes are known findings.",
    ),
    "C03": dict(
        category="model_checking",
        technique="TLA+ specs CmdGrammar (what `wrapped by hand` means, token by token; the judgement bare = explicit) and Recovery (the wrapping recovery loop against an adversarial parser: budget, passes, one nested call; termination by a lexicographic variant under weak fairness) checked by TLC; thousands of shapes rendered bare and hand-wrapped, both put through the real three-phase parse (trees compared, unequal trees executed with recording aliases) and validated against CmdGrammarTrace; every hostile string parsed under a loop-head event point and its iteration trace validated against RecoveryTrace by TLC",
        text="TLC checks WrapIsExact/AmpOnlyLast/Equivalent on CmdGrammar and Termination, VariantDecreases, ExitKinds, DepthAtMostTwo, BoundedIterations on Recovery for every answer the parser could give; the real Execer then handles thousands of (segment atoms x chain operators x statement position x layout) shapes in both renderings - any difference in the transformed tree that is not explained by a listed deviation is decided by executing both - and >13k arbitrary strings (all strings up to length 3-4 over a 21-symbol alphabet, a hostile pool, damaged programs) whose loop-head events must be a behaviour of Recovery ending in a tree or a SyntaxError. Model checking is the right level: termination is a property of the loop's bookkeeping for all parser answers (decided by TLC), and the binding shows the code's bookkeeping is the model's.",
        design_ref="3/C03",
        note="Trusts TLC, equal transformed trees = equal behaviour, recording callable aliases for unequal trees; inputs are UTF-8 encodable and nest less deeply than the recursion limit. Hook guard XONSH_XONSH_VERIF=1 (event point at the loop head). Two chain defects are known findings.",
    ),
    "C16": dict(
        category="model_checking",
        technique="TLA+ spec DirStack checked by TLC; TLC-simulated and systematic command sequences replayed on the real dirstack commands; recorded executions validated against DirStackTrace by TLC",
        text="TLC exhausts the DirStack model (all cd/pushd/popd/dirs argument forms over a tree with symlinks and deleted directories) for the invariants PWD=cwd, OLDPWD, fail-changes-nothing, size bound, rotation/removal and pushd/popd round trip; every real execution (thousands of command sequences through the real alias plumbing in a scratch tree) must be a behaviour of the same spec. Histories are the quantifier, which is what TLC enumerates.",
        design_ref="3/C16",
        note="Trusts TLC, the projection in harness/drivers/dirstack.py and the bounded universe (tree of 5 dirs + 2 links, N<=3, stack<=3 in the exhaustive run).",
    ),
    "C20": dict(
        category="model_checking",
        technique="TLA+ spec Jobs checked by TLC; transition tours over the dumped state graph and TLC-simulated behaviours replayed on the real xonsh.procs.jobs module (stub processes, real alias thread); recorded executions validated against JobsTrace by TLC",
        text="TLC exhausts the Jobs model (dictionary + MRU deque + lazily purged dead jobs; fg/bg/disown/jobs with every argument form on main and alias threads) for permutation, lowest-free numbering, purge, selection and error-alters-nothing properties; every edge of the MaxJobs=3 state graph (thorough) is executed on the real module and each recorded execution must be a behaviour of the spec.",
        design_ref="3/C20",
        note="Trusts TLC and the stub process objects (poll() scripted, no real signals); real process registration through _run_command_pipeline is not exercised in this tier.",
    ),
    "C15": dict(
        category="model_checking",
        technique="TLA+ spec Alias (step-wise expansion, liveness + variant) checked by TLC; alias tables enumerated/sampled over a finite body universe, resolved by the real Aliases.get and SubprocSpec.build, recorded queries validated against AliasTrace by TLC; definition-order groups compared",
        text="TLC proves termination (leads-to under weak fairness, depth variant), each-alias-once, argument-suffix preservation and agreement of the step-wise expansion with the reference for every alias table of the bounded universe, cycles included; every table of the reduced universe (thorough) and seeded samples of the full one are built on the real Aliases object in several definition orders and every resolution result must equal the spec's reference expansion.",
        design_ref="3/C15",
        note="Trusts TLC and the finite universe (3 names, bodies of <= 2 tokens plus decorator prefixes, callable and return-command bodies). ExecAlias bodies and the $__ALIAS_STACK guard are covered separately when built.",
    ),
    "C14": dict(
        category="model_checking",
        technique="TLA+ spec HistGC (declarative selection + property action-invariants) checked by TLC; generated file collections materialised as real history files / SQLite rows, real `history gc` runs and pure selection calls recorded and validated against HistGCTrace by TLC",
        text="TLC checks never-live, oldest-first, fits, maximal, nothing-if-within, refusal and SQLite keep-newest-N over every collection of the bounded universe; thousands of generated collections (lock no/live/stale, empty and corrupt members, the running session's own file, boundary limits in all four units) are written as real files and collected by the real GC, and each run must be the spec's GC action.",
        design_ref="3/C14",
        note="Trusts TLC, the file writer of harness/drivers/histgc.py and the scaling 1 age unit = 1000 s; refusal rule = discarded units >= limit.",
    ),
    "C11": dict(
        category="model_checking",
        technique="TLA+ spec EnvLayers (global/thread-local/overlay layers, swap scopes, shared detype cache, two threads) checked by TLC exhaustively (bounded depth) and by simulation; simulated behaviours replayed on a real Env with a commanded worker thread; every read path of both threads validated against EnvLayersTrace by TLC",
        text="TLC checks ExitRestores, ThreadLocal, MaskConsistent, NoResidue and DetypeIsView on the implementation-shaped layer model; thousands of simulated operation sequences (nesting <= 3, exits by return and exception, masks, overlays mutated in place, inheritance by helper threads) are executed on the real Env and every sampled read path ([], in, get, iteration, detype) of both threads must match the model after every step.",
        design_ref="3/C11",
        note="Trusts TLC and operation-granularity interleaving (races inside one Env call are not modelled). Four genuine defects are recorded as known findings (named Dev_* actions).",
    ),
    "C10": dict(
        category="model_checking",
        technique="TLA+ spec EnvDetype checked by TLC; transition tours over its state graph replayed on the real session environment with a real `env -0` child per launch (and the child's mapping fed to a fresh Env); recorded histories validated against EnvDetypeTrace by TLC; convert(detype(v)) sweep over all registered variables",
        text="TLC checks that every launch hands the child the values at launch time for all set/del/in-place-mutation (through the env and through a retained reference)/prefix/mask histories of the model; every edge of the state graph (thorough) is executed with real child processes, and the round-trip clause is enumerated for every registered variable and pool value.",
        design_ref="3/C10",
        note="Trusts TLC and the version encoding of values (three variables of str/bool/path-list type); round trip equality is typed equality of convert(detype(v)).",
    ),
    "C19": dict(
        category="model_checking",
        technique="TLA+ spec CodeCache checked by TLC; simulated edit/touch/run/damage/switch histories replayed on run_script_with_cache/run_code_with_cache with explicit mtimes and validated against CodeCacheTrace by TLC; every truncation length of a real cache file replayed",
        text="TLC checks Fresh, Robust, SameAsUncached (within the statement's invalidation contract), CodeSameAsUncached and OffMeansOff over all histories of the model (script store and code store, both modes, both binding contexts, all switch combinations); thousands of simulated histories run on the real cache with controlled mtimes must be behaviours of the spec, and each byte-length truncation of a real entry must be ignored and rebuilt.",
        design_ref="3/C19",
        note="Trusts TLC and os.utime-controlled logical time; same-tick / older-mtime edits are outside the contract (stale run allowed). Three code-store defects are known findings.",
    ),
    "C08": dict(
        category="model_checking",
        technique="TLA+ spec PathLookup (POSIX search as truth, commands cache as implemented) checked by TLC; simulated and weighted create/delete/chmod/$PATH-edit/lookup histories replayed on a scratch tree with explicit mtimes; each lookup compared with shutil.which, /bin/sh `command -v` and a real spawn; validated against PathLookupTrace by TLC",
        text="TLC checks LocateIsPosix, NeverFromCwdImplicitly and CacheNeverStale over all histories of the bounded model (three directories, symlinked/missing/empty $PATH entries, executable/non-executable/directory shadows); thousands of histories are replayed on real files and every lookup view (locate_executable, locate_binary, `in`, listing, the file actually spawned) must match the model, whose PosixWhich is itself bound to two external oracles at every lookup.",
        design_ref="3/C08",
        note="Trusts TLC, dash's `command -v`, shutil.which and explicit directory mtimes; one command name; READ_DIR_ONCE empty. Two cache-staleness defects are known findings.",
    ),
    "C13": dict(
        category="fault_enumeration",
        technique="TLA+ spec HistFS (temp-file-then-rename protocol, transactions, Crash between any two steps) checked by TLC; every history-rewriting operation run in a forked child under a file-system/SQL interposer that kills the process or fails the call at every operation k (and inside writes); recorded operation sequences + what is found on disk validated against HistFSTrace by TLC",
        text="TLC checks Atomic (every history file is a complete old or new version in every reachable state, crash states included) on the protocol model; for each of 8 real operations (JSON flush at exit / in background, delete, erasedups, GC unlock; SQLite append, erasedups, delete) every fault point is enumerated with a kill and with an injected OSError, the files are re-loaded, and the recorded operation sequence together with the observed file states must be a behaviour of the protocol.",
        design_ref="3/C13",
        note="Process kill and failing calls, not power loss; SQLite's atomic commit trusted; fault points are the interposed Python-level calls.",
    ),
    "C12": dict(
        category="model_checking",
        technique="TLA+ specs HistStore (reference list under $HISTCONTROL, buffer/disk boundary) and HistQueue (flusher/reader ticket queue: no lost wake-up, FIFO) checked by TLC; simulated and weighted append/flush/read sequences replayed on real JsonHistory/SqliteHistory and validated against HistStoreTrace by TLC; every enqueue x acquisition order of the ticket queue replayed through guarded schedule points",
        text="TLC checks AppendOnly/ReadIsRef on HistStore and NoStuck/Served (weak fairness) on HistQueue for several ticket sets; thousands of operation sequences with adversarial texts are run on both back ends and every read view (len, +/- index, slices both ways, iteration, entries, items, lazy-index reads, whole-file JSON, table) must equal the reference list; all schedules of the ticket queue at acquisition-order granularity are reproduced deterministically on a real JsonHistory.",
        design_ref="3/C12",
        note="Trusts TLC; reads at quiescent points; queue schedules controlled at one gate per ticket with a settle delay (verdict from the final state only). Hook guard XONSH_XONSH_VERIF=1.",
    ),
    "C05": dict(
        category="model_checking",
        technique="TLA+ spec Chain (the documented truth table as an evaluator: short-circuit over exit codes, raise rule, exemptions, flags) checked by TLC over all configurations; every configuration rendered to xonsh source and executed with scripted aliases (and, for a subset, as real xonsh processes with real children); observed run log / exception / marker / exit status validated against ChainTrace by TLC",
        text="TLC checks RunsIffReached, NothingAfterRaise, Exempt and FlagOff over every chain configuration of the bounded universe (1-2 leaves exhaustively; 3-4 by sampling in the replay): exit codes x capture forms x decorators x Python-parsable/command-only operand text x output/no output x both raise flags; each configuration is executed on the real parser/runtime and the observed behaviour must be the spec's outcome - exactly the operand-text dimension the existing tests lack.",
        design_ref="3/C05",
        note="Trusts TLC and scripted callable aliases; under CMD_RAISE a chain operand defers to the chain (documented intent of the code). Two families of defects are known findings (value truthiness of $()/$[] operands; CMD_RAISE depends on the parse path).",
    ),
    "C07": dict(
        category="model_checking",
        technique="TLA+ spec Redirect (routing decision: operator classes x stage kind x pipeline position x capture form -> destination of each stream, conflicts as errors) checked by TLC; every documented spelling of every operator and operator pairs rendered to real command lines whose streams write distinct tags; destinations read back and validated against RedirectTrace by TLC",
        text="TLC checks OneDestination, Out/ErrFollowsOperator, MergeMeansSame, ConflictsAreErrors, DefaultOut and NoCrash over all configurations with up to two operators; all 50 operator spellings are executed alone on an external process, a threaded alias and an unthreadable alias, with and without a following pipe, under $() and ![], plus operator pairs; every destination (files with pre-existing content, next stage, capture, fd 1, fd 2) is inspected and must be the spec's route.",
        design_ref="3/C07",
        note="Trusts TLC and tag-based destination detection; pipelines of length <= 2; three alias/capture mis-routes are known findings.",
    ),
    "C04": dict(
        category="model_checking",
        technique="TLA+ spec ArgAssembly (atom kinds x payload classes -> expected argv with per-element treatment) checked by TLC; atom sequences concretised with pool strings, rendered to command lines and run through a recording callable alias and a real child; received argv classified per element and validated against ArgAssemblyTrace by TLC",
        text="TLC checks Ordered, Multiplicity and VerbatimKinds over every sequence of up to two atoms of the bounded universe (11 atom kinds x 11 payload classes); every single atom with every pool string, pairs and sampled triples are executed for real and the argv seen by the alias and by the child must both equal the spec's expected argv - the quoting-form x delivery-path x rare-character product the example tests do not span.",
        design_ref="3/C04",
        note="Trusts TLC and the expansion oracle of the harness ($VERIFVAR, leading ~); fixed pool of ~30 strings; glob-looking words match nothing. One defect (glued injection expanded) is a known finding.",
    ),
    "C02": dict(
        category="model_checking",
        technique="TLA+ spec Scope (lexical scope stack, binding forms, del/global, decision rule) checked by TLC; simulated and weighted statement sequences rendered to source, decided by the real three-phase Execer.parse, decisions validated against ScopeTrace by TLC; syntax-error inputs executed to show nothing runs",
        text="TLC checks PythonWins, UnboundIsCommand and BlockRestores over all statement sequences of the bounded model (10 binding forms, def/class blocks to depth 2, global, del, five command-looking expression shapes, every session context); thousands of generated programs are parsed by the real execer and the Python-vs-command decision of every expression statement must be one the spec allows; inputs ending in a syntax error must raise SyntaxError with no statement executed.",
        design_ref="3/C02",
        note="Trusts TLC and the reading of decisions from the transformed tree; two names, depth <= 2; class-body-only bindings may be decided either way. Two binder defects are known findings.",
    ),
}

ALL = [f"C{i:02d}" for i in range(1, 21)]


def main():
    checks = []
    for pid, c in sorted(CHECKS.items()):
        checks.append(
            {
                "property_id": pid,
                "quick_cmd": f"./check {pid} --tier quick",
                "thorough_cmd": f"./check {pid} --tier thorough",
                "evidence_file": f"/verif/evidence/{pid}.json",
                "replay_cmd_template": f"./check {pid} --replay {{path}}",
                "engine": "tlc+replay",
                "level_claimed": {"category": c["category"], "text": c["text"], "design_ref": c["design_ref"]},
                "level_note": c["note"],
                "technique": c["technique"],
            }
        )
    man = {
        "version": 1,
        "setup_cmd": "./setup.sh",
        "hooks": {
            "guard": "XONSH_XONSH_VERIF",
            "enable": "checks import /repo's working tree directly (PYTHONPATH=/repo, /venv/bin/python); hook points are active only when XONSH_XONSH_VERIF=1 is set in the worker environment",
            "baseline_off_cmd": "cd /repo && env -u XONSH_XONSH_VERIF /venv/bin/python -m pytest -ra -q -p no:cacheprovider --timeout=900 --continue-on-collection-errors",
            "source_commits": ["15cb5b7", "8cef7df", "eef0bde", "96f7e2b"],
            "add_only": True,
        },
        "engines": [
            {"name": "tlc+replay", "path": "/verif/harness", "serves_properties": sorted(CHECKS), "kind_free_text": "explicit TLA+ specifications (specs/*.tla) model-checked by TLC; spec behaviours replayed into the real xonsh code and recorded executions validated against *Trace.tla specifications by TLC"}
        ],
        "checks": checks,
        "not_applicable": [{"property_id": p, "reason": "not built in the time available: the Resources ownership-ledger model and the /proc/self snapshot harness of DESIGN.md section 3/C09 remain design (DESIGN.md A.5); nothing is claimed through a stub"} for p in ALL if p not in CHECKS],
        "notes": "See DESIGN.md (section A = as built). exit 0 = held (KNOWN-FINDING lines for open entries of known_findings.json, and for C01 of known_findings_c01.json; ADVISORY lines never affect the status), exit 1 = VIOLATION, exit 2 = machinery failure. Random parts of every universe come from 24 fixed streams: the quick tier visits stream VERIF_SEED mod 24, the thorough tier all of them.",
    }
    with open(os.path.join(VERIF, "MANIFEST.json"), "w") as fh:
        json.dump(man, fh, indent=1)


if __name__ == "__main__":
    main()
