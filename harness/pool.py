"""Run a driver over many scenarios in parallel worker processes.

Each worker is a fresh `/venv/bin/python -m harness.worker` with PYTHONPATH=/repo:/verif, so the
code under test is always /repo's current working tree.  Workers exchange JSON files with the
parent and leave through os._exit (a history defect must not hang the at-exit flush)."""

from __future__ import annotations

import json
import os
import subprocess
import sys
import tempfile
import time

from . import tlc

PY = "/venv/bin/python"
VERIF = tlc.VERIF


def worker_env(hooks=True, extra=None):
    e = dict(os.environ)
    e["PYTHONPATH"] = "/repo:" + VERIF
    e["PYTHONHASHSEED"] = "0"
    e["PYTHONDONTWRITEBYTECODE"] = "1"
    e["PYTHONWARNINGS"] = "ignore"
    if hooks:
        e["XONSH_XONSH_VERIF"] = "1"
    else:
        e.pop("XONSH_XONSH_VERIF", None)
    # keep xonsh away from the user's real config/history
    home = os.path.join(tlc.scratch_root(), "home")
    os.makedirs(home, exist_ok=True)
    e["HOME"] = home
    e["XDG_CONFIG_HOME"] = os.path.join(home, ".config")
    e["XDG_DATA_HOME"] = os.path.join(home, ".local/share")
    e["XDG_CACHE_HOME"] = os.path.join(home, ".cache")
    e["XONSH_DATA_DIR"] = os.path.join(home, "xdata")
    e["XONSH_CACHE_DIR"] = os.path.join(home, "xcache")
    e.pop("XONSHRC", None)
    e["TERM"] = "dumb"
    e["LC_ALL"] = "C.UTF-8"
    e["LANG"] = "C.UTF-8"
    if extra:
        e.update(extra)
    return e


def run(driver: str, scenarios: list, *, nproc: int = 16, timeout: int = 600, hooks=True, extra_env=None, chunking="stride", retry=True):
    """Returns list of results aligned with scenarios.

    A worker that dies or is ended by its per-scenario watchdog loses the scenario it was in (the
    "suspect") and everything after it in its batch.  Those are run again in fresh workers - the rest in
    normal batches, every suspect alone - so that one wedged scenario (xonsh's thread web does wedge now
    and then under load) costs one retry instead of the whole check.  A suspect that fails again stays
    marked `worker_failed` (with `retried`) for the caller to judge."""
    results = _run_pass(driver, scenarios, nproc=nproc, timeout=timeout, hooks=hooks, extra_env=extra_env)
    if not retry:
        return results
    missing = [i for i, r in enumerate(results) if isinstance(r, dict) and r.get("worker_failed")]
    if not missing:
        return results
    suspects = [i for i in missing if results[i].get("first_missing")]
    others = [i for i in missing if not results[i].get("first_missing")]
    if others:
        r2 = run(driver, [scenarios[i] for i in others], nproc=nproc, timeout=timeout, hooks=hooks, extra_env=extra_env, retry=len(others) < len(scenarios))
        for i, r in zip(others, r2):
            results[i] = r
    for i in suspects[:8]:
        r1 = _run_pass(driver, [scenarios[i]], nproc=1, timeout=min(timeout, 400), hooks=hooks, extra_env=extra_env)[0]
        if isinstance(r1, dict) and r1.get("worker_failed"):
            r1["retried"] = True
        results[i] = r1
    for i in suspects[8:]:
        results[i]["retried"] = False
    return results


def _run_pass(driver: str, scenarios: list, *, nproc: int = 16, timeout: int = 600, hooks=True, extra_env=None):
    if not scenarios:
        return []
    nproc = max(1, min(nproc, len(scenarios)))
    d = tempfile.mkdtemp(prefix="pool-", dir=tlc.scratch_root())
    procs = []
    for w in range(nproc):
        idx = list(range(w, len(scenarios), nproc))
        inp = os.path.join(d, f"in{w}.json")
        outp = os.path.join(d, f"out{w}.json")
        with open(inp, "w") as fh:
            json.dump([scenarios[i] for i in idx], fh)
        wd = os.path.join(d, f"w{w}")
        os.makedirs(wd)
        log = open(os.path.join(d, f"log{w}.txt"), "w")
        p = subprocess.Popen(
            [PY, "-m", "harness.worker", driver, inp, outp, wd],
            cwd=VERIF,
            env=worker_env(hooks, extra_env),
            stdin=subprocess.DEVNULL,
            stdout=log,
            stderr=subprocess.STDOUT,
        )
        procs.append((p, idx, outp, log))
    results = [None] * len(scenarios)
    deadline = time.time() + timeout
    for p, idx, outp, log in procs:
        try:
            p.wait(timeout=max(1, deadline - time.time()))
        except subprocess.TimeoutExpired:
            p.kill()
            p.wait()
        log.close()
        got = []
        if os.path.exists(outp):
            with open(outp) as fh:
                got = [json.loads(line) for line in fh if line.strip()]
        for j, i in enumerate(idx):
            if j < len(got):
                results[i] = got[j]
            else:
                # the worker died or hung on this scenario: reported by the caller
                results[i] = {"worker_failed": True, "log": open(log.name).read()[-2000:], "first_missing": j == len(got)}
    import shutil

    shutil.rmtree(d, ignore_errors=True)
    return results
