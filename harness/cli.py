"""./check <Cnn> [--tier quick|thorough] [--replay path]

exit 0: property held on everything explored (KNOWN-FINDING lines possible)
exit 1: VIOLATION property=<id> replay=<path>
exit 2: machinery failure"""

import argparse
import importlib
import os
import sys
import traceback


def main():
    ap = argparse.ArgumentParser()
    ap.add_argument("pid")
    ap.add_argument("--tier", default=os.environ.get("VERIF_TIER", "quick"), choices=["quick", "thorough"])
    ap.add_argument("--replay")
    ns = ap.parse_args()
    seed = int(os.environ.get("VERIF_SEED", "0") or 0)
    # The checks built first draw their random scenario parts directly from the seed.  Every input any
    # seed can reach must have been triaged on the pinned tree (DESIGN.md 2.4), so for them the seed is
    # folded onto the six values that were (C01 C03 C06 C09 C17 C18 use core.streams instead).
    if ns.pid.upper() not in ("C01", "C03", "C06", "C09", "C17", "C18"):
        seed = seed % 6
    from harness import tlc

    mod = importlib.import_module("harness.checks." + ns.pid.lower())
    rc = 2
    try:
        rc = mod.run(ns.tier, seed, ns.replay)
    except tlc.TLCError as e:
        print(f"MACHINERY-ERROR property={ns.pid}: {e}")
        rc = 2
    except Exception:
        print(f"MACHINERY-ERROR property={ns.pid}:")
        traceback.print_exc()
        rc = 2
    finally:
        tlc.cleanup_scratch()
    sys.stdout.flush()
    os._exit(rc)


if __name__ == "__main__":
    main()
