"""Thin driver around TLC: model checking, simulation (behaviours as JSON) and batched
trace validation.  Everything runs under `timeout`, in a scratch metadir outside /verif."""

from __future__ import annotations

import json
import os
import re
import shutil
import subprocess
import tempfile
import time

VERIF = os.path.dirname(os.path.dirname(os.path.abspath(__file__)))
SPECS = os.path.join(VERIF, "specs")
JAR = "/opt/veriftools/tla/tla2tools.jar:/opt/veriftools/tla/CommunityModules-deps.jar"


class TLCError(RuntimeError):
    """Machinery failure (exit code 2 of a check)."""


def scratch_root() -> str:
    root = os.environ.get("VERIF_SCRATCH")
    if not root:
        root = os.path.join("/var/tmp", f"xonsh-verif.{os.getpid()}")
        os.environ["VERIF_SCRATCH"] = root
    os.makedirs(root, exist_ok=True)
    return root


def cleanup_scratch():
    root = os.environ.get("VERIF_SCRATCH")
    if root and os.path.basename(root).startswith("xonsh-verif.") and os.path.isdir(root):
        shutil.rmtree(root, ignore_errors=True)


def _java_cmd(workers, extra_jvm=()):
    return [
        "java",
        "-XX:+UseParallelGC",
        "-Xmx6g",
        *extra_jvm,
        "-cp",
        JAR,
        "tlc2.TLC",
        "-workers",
        str(workers),
        "-noGenerateSpecTE",
    ]


_RE_STATS = re.compile(r"(\d+) states generated, (\d+) distinct states found, (\d+) states left")
_RE_DEPTH = re.compile(r"The depth of the complete state graph search is (\d+)")
_RE_COV = re.compile(r"^<(\w+) line \d+, col \d+ to line \d+, col \d+ of module (\w+)>: (\d+):(\d+)", re.M)
_RE_ERR = re.compile(r"^Error: (.*)$", re.M)


# modules generated at check time (name, text), written next to the copied specs for every TLC run
EXTRA_MODULES: list = []


def _prepare_dir(spec_module: str, cfg_text: str | None, cfg_file: str | None, extra_modules=()):
    """Copy the specs into a scratch dir (TLC writes next to the spec) and return it."""
    d = tempfile.mkdtemp(prefix="tlc-", dir=scratch_root())
    for f in os.listdir(SPECS):
        if f.endswith(".tla"):
            shutil.copy(os.path.join(SPECS, f), d)
    for name, text in list(EXTRA_MODULES) + list(extra_modules):
        with open(os.path.join(d, name), "w") as fh:
            fh.write(text)
    cfgp = os.path.join(d, spec_module + ".run.cfg")
    if cfg_text is None:
        with open(os.path.join(SPECS, cfg_file)) as fh:
            cfg_text = fh.read()
    with open(cfgp, "w") as fh:
        fh.write(cfg_text)
    return d, cfgp


def run_tlc(
    spec_module: str,
    *,
    cfg_file: str | None = None,
    cfg_text: str | None = None,
    workers: int = 16,
    timeout: int = 600,
    coverage: bool = False,
    args=(),
    env=None,
    extra_modules=(),
    extra_jvm=(),
    keep=False,
):
    """Run TLC; returns dict(out, rc, states, distinct, depth, errors, coverage, wall_s)."""
    d, cfgp = _prepare_dir(spec_module, cfg_text, cfg_file, extra_modules)
    cmd = ["timeout", str(timeout)] + _java_cmd(workers, extra_jvm)
    cmd += ["-metadir", os.path.join(d, "meta"), "-config", cfgp]
    if coverage:
        cmd += ["-coverage", "1"]
    cmd += list(args) + [os.path.join(d, spec_module + ".tla")]
    e = dict(os.environ)
    if env:
        e.update(env)
    t0 = time.time()
    p = subprocess.run(cmd, cwd=d, env=e, stdout=subprocess.PIPE, stderr=subprocess.STDOUT, text=True)
    wall = time.time() - t0
    out = p.stdout
    res = {"out": out, "rc": p.returncode, "wall_s": wall, "dir": d, "cmd": " ".join(cmd)}
    m = None
    for m in _RE_STATS.finditer(out):
        pass
    if m:
        res["states"], res["distinct"], res["queue"] = int(m.group(1)), int(m.group(2)), int(m.group(3))
    m = _RE_DEPTH.search(out)
    if m:
        res["depth"] = int(m.group(1))
    res["errors"] = _RE_ERR.findall(out)
    cov = {}
    for m in _RE_COV.finditer(out):
        name = m.group(1)
        cov[name] = max(cov.get(name, 0), int(m.group(4)))
    res["coverage"] = cov
    if p.returncode == 124:
        res["errors"].append("TIMEOUT")
    if not keep:
        shutil.rmtree(d, ignore_errors=True)
    return res


def model_check(spec_module, cfg_file=None, cfg_text=None, *, expect_ok=True, coverage=True, timeout=900, workers=16, args=()):
    """Exhaustive check.  Raises TLCError when the outcome is not the expected one or when an
    action was never taken (vacuity guard)."""
    r = run_tlc(spec_module, cfg_file=cfg_file, cfg_text=cfg_text, coverage=coverage, timeout=timeout, workers=workers, args=args)
    finished = "Model checking completed. No error has been found." in r["out"]
    if expect_ok:
        if not finished or "states" not in r:
            raise TLCError(f"TLC did not finish cleanly on {spec_module} ({cfg_file}):\n" + r["out"][-3000:])
        if coverage:
            never = [a for a, n in r["coverage"].items() if n == 0 and not a.startswith(("Init", "Dev_", "vars"))]
            r["never_taken"] = never
    else:
        if finished or not r["errors"]:
            raise TLCError(f"TLC was expected to find a violation on {spec_module} ({cfg_file}) but did not:\n" + r["out"][-2000:])
        if not any("violated" in e for e in r["errors"]):
            # an evaluation error is not a refutation (a self-test passing on it would be vacuous)
            raise TLCError(f"TLC failed instead of finding a violation on {spec_module} ({cfg_file}): {r['errors'][:2]}\n" + r["out"][-2000:])
    return r


_RE_PRINT_JSON = re.compile(r'^<<"(\w+)", (.*)>>$')


def _tla_string_to_py(s: str) -> str:
    """TLC prints strings with TLA+ escapes (\\" and \\\\ ...), which JSON decodes as well."""
    return json.loads(s)


def parse_printed(out: str, tag: str):
    """Yield the payloads of lines printed by PrintT(<<tag, payload>>) where payload is either
    a TLA+ string holding JSON (decoded) or a tuple of integers."""
    for line in out.splitlines():
        if not line.startswith('<<"' + tag + '"'):
            continue
        m = _RE_PRINT_JSON.match(line.strip())
        if not m:
            continue
        body = m.group(2)
        if body.startswith('"'):
            yield json.loads(_tla_string_to_py(body))
        else:
            yield [int(x) for x in body.split(",")]


def simulate(spec_module, cfg_file=None, cfg_text=None, *, num=100, depth=10, seed=0, timeout=300, workers=1, tag="B"):
    """Random behaviours of exactly `depth` states; the spec's cfg must contain a CONSTRAINT/INVARIANT
    that prints `<<tag, ToJson(Trace)>>` when TLCGet("level") = the constant SimDepth."""
    args = ["-simulate", f"num={num}", "-depth", str(depth), "-seed", str(seed if seed else 1)]
    r = run_tlc(spec_module, cfg_file=cfg_file, cfg_text=cfg_text, workers=workers, timeout=timeout, args=args)
    if r["rc"] not in (0,) and not any(True for _ in parse_printed(r["out"], tag)):
        raise TLCError(f"simulation of {spec_module} failed:\n" + r["out"][-3000:])
    behs = list(parse_printed(r["out"], tag))
    seen, uniq = set(), []
    for b in behs:
        k = json.dumps(b, sort_keys=True)
        if k not in seen:
            seen.add(k)
            uniq.append(b)
    return uniq, r


def validate_traces(trace_module, traces, *, cfg_text, timeout=900, batch=4000, extra_env=None):
    """Batched trace validation.  `traces` is a list of JSON-able trace objects; the trace
    module reads them with JsonDeserialize(IOEnv.TRACE_FILE), starts one behaviour per trace id
    and prints <<"P", tid, l>> for every matched prefix (l = next line to match, 1-based) and
    <<"D", tid, ToJson(used)>> when a trace was matched completely (used = deviation names).
    Returns list of dict(ok, matched, total, devs) aligned with `traces`, plus aggregate stats."""
    results = [None] * len(traces)
    agg = {"states": 0, "distinct": 0, "runs": 0, "wall_s": 0.0}
    for start in range(0, len(traces), batch):
        chunk = traces[start : start + batch]
        d = tempfile.mkdtemp(prefix="trace-", dir=scratch_root())
        tf = os.path.join(d, "traces.json")
        with open(tf, "w") as fh:
            json.dump(chunk, fh)
        env = {"TRACE_FILE": tf}
        if extra_env:
            env.update(extra_env)
        r = run_tlc(trace_module, cfg_text=cfg_text, workers=1, timeout=timeout, env=env)
        shutil.rmtree(d, ignore_errors=True)
        if "states" not in r or (r["errors"] and not all("POSTCONDITION" in e.upper() for e in r["errors"])):
            raise TLCError(f"trace validation run of {trace_module} failed:\n" + r["out"][-9000:])
        agg["states"] += r["states"]
        agg["distinct"] += r["distinct"]
        agg["runs"] += 1
        agg["wall_s"] += r["wall_s"]
        prog = {}
        devs = {}
        for line in r["out"].splitlines():
            if line.startswith('<<"P", '):
                a = line.strip()[2:-2].split(", ")
                tid, l = int(a[1]), int(a[2])
                if l > prog.get(tid, 0):
                    prog[tid] = l
            elif line.startswith('<<"D", '):
                m = re.match(r'^<<"D", (\d+), (".*")>>$', line.strip())
                if m:
                    used = json.loads(json.loads(m.group(2)))
                    tid = int(m.group(1))
                    # keep the explanation that needs the fewest deviations
                    if tid not in devs or len(used) < len(devs[tid]):
                        devs[tid] = used
        for i, t in enumerate(chunk):
            total = len(t["steps"])
            matched = prog.get(i + 1, 1) - 1
            results[start + i] = {
                "ok": matched >= total,
                "matched": matched,
                "total": total,
                "devs": sorted(devs.get(i + 1, ())),
                "done": (i + 1) in devs,
            }
    return results, agg


def sany(spec_module):
    p = subprocess.run(
        ["java", "-cp", JAR, "tla2sany.SANY", os.path.join(SPECS, spec_module + ".tla")],
        cwd=SPECS,
        stdout=subprocess.PIPE,
        stderr=subprocess.STDOUT,
        text=True,
    )
    return p.returncode == 0 and "Semantic errors" not in p.stdout and "***Parse Error***" not in p.stdout, p.stdout


def cfg_constants(cfg_text: str) -> str:
    """The SPECIFICATION / CONSTANTS part of a cfg (drops properties and constraints), used to
    derive simulation and trace configurations from the one checked-in source of truth."""
    keep, skip_kw = [], ("INVARIANT", "PROPERTY", "PROPERTIES", "INVARIANTS", "CONSTRAINT", "VIEW", "CHECK_DEADLOCK", "POSTCONDITION", "ACTION_CONSTRAINT", "SYMMETRY")
    for line in cfg_text.splitlines():
        if line.strip().startswith(skip_kw):
            continue
        keep.append(line)
    return "\n".join(keep) + "\n"


def simulate_behaviours(module, cfg_text, *, depth, num, seed, timeout=300, fields=None, workers=1):
    """Random behaviours of `module` (depth states each) as lists of state dicts, obtained by a
    generated wrapper module that prints TLCExt!Trace as JSON when the behaviour is complete."""
    sim = module + "Sim"
    proj = "Trace" if not fields else "[i \\in 1..Len(Trace) |-> [" + ", ".join(f"{f} |-> Trace[i].{f}" for f in fields) + "]]"
    text = (
        f"---- MODULE {sim} ----\nEXTENDS {module}, Json, TLCExt\n"
        f'SimPrint == TLCGet("level") = {depth} => PrintT(<<"B", ToJson({proj})>>)\n====\n'
    )
    cfg = cfg_constants(cfg_text) + "CONSTRAINT SimPrint\nCHECK_DEADLOCK FALSE\n"
    args = ["-simulate", f"num={num}", "-depth", str(depth), "-seed", str(seed if seed else 1)]
    r = run_tlc(sim, cfg_text=cfg, workers=workers, timeout=timeout, args=args, extra_modules=[(sim + ".tla", text)])
    behs = list(parse_printed(r["out"], "B"))
    if not behs:
        raise TLCError(f"simulation of {module} produced no behaviours:\n" + r["out"][-3000:])
    seen, uniq = set(), []
    for b in behs:
        k = json.dumps(b, sort_keys=True)
        if k not in seen:
            seen.add(k)
            uniq.append(b)
    return uniq, r


def dump_edges(module, cfg_text, *, state_expr="view", label_expr="<<act', res'>>", timeout=900, keep_lines=("CONSTRAINT", "VIEW")):
    """Exhaustive exploration printing every transition of the (view-reduced) state graph as JSON.
    Returns (inits, edges) where edges = list of (src_key, label, dst_key), states = {key: value}."""
    mod = module + "Edges"
    text = (
        f"---- MODULE {mod} ----\nEXTENDS {module}, Json\n"
        f'EdgePrint == PrintT(<<"E", ToJson(<<{state_expr}, {label_expr}, ({state_expr})\'>>)>>)\n'
        f'InitPrint == TLCGet("level") = 1 => PrintT(<<"I", ToJson(<<{state_expr}>>)>>)\n====\n'
    )
    cfg = cfg_constants(cfg_text)
    for line in cfg_text.splitlines():
        if line.strip().startswith(keep_lines):
            cfg += line + "\n"
    cfg += "CONSTRAINT InitPrint\nACTION_CONSTRAINT EdgePrint\nCHECK_DEADLOCK FALSE\n"
    r = run_tlc(mod, cfg_text=cfg, workers=1, timeout=timeout, extra_modules=[(mod + ".tla", text)])
    if "states" not in r or r["errors"]:
        raise TLCError(f"edge dump of {module} failed:\n" + r["out"][-3000:])
    states, edges, inits = {}, [], []
    seen_edges = set()

    def key(v):
        k = json.dumps(v, sort_keys=True)
        if k not in states:
            states[k] = v
        return k

    for line in r["out"].splitlines():
        if line.startswith('<<"E", "'):
            s, lab, t = json.loads(json.loads(line[7:-2]))
            e = (key(s), json.dumps(lab, sort_keys=True), key(t))
            if e not in seen_edges:
                seen_edges.add(e)
                edges.append((e[0], lab, e[2]))
        elif line.startswith('<<"I", "'):
            (s,) = json.loads(json.loads(line[7:-2]))
            k = key(s)
            if k not in inits:
                inits.append(k)
    return inits, edges, states, r
