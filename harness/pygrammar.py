"""Production tables of the Python 3.12 grammar used by C01 (one source of truth; specs/PyGrammarProds.tla
is generated from here by tools/gen_pygrammar.py).

A production is (name, kind, template, where).  Templates use the slots
  {E} {E2} expression      {T} assignment target      {B} indented block (statements)
  {P} match pattern
`where` restricts the enclosing context: "" anywhere, "def" inside a function, "async" inside an async
function, "loop" inside a loop, "nested" inside a nested function, "class" inside a class."""

from __future__ import annotations

BINOPS = {"Add": "+", "Sub": "-", "Mult": "*", "Div": "/", "FloorDiv": "//", "Mod": "%", "Pow": "**", "MatMult": "@", "LShift": "<<", "RShift": ">>", "BitOr": "|", "BitXor": "^", "BitAnd": "&"}
CMPOPS = {"Eq": "==", "NotEq": "!=", "Lt": "<", "LtE": "<=", "Gt": ">", "GtE": ">=", "Is": "is", "IsNot": "is not", "In": "in", "NotIn": "not in"}

EXPR = [
    ("Name", "a"), ("Int", "1"), ("Float", "1.5"), ("Complex", "2j"), ("Hex", "0x1F"), ("Oct", "0o17"), ("Bin", "0b101"), ("IntUnderscore", "1_000"), ("FloatExp", "1e-3"), ("BigInt", "123456789012345678901234567890"),
    ("Str", "'s'"), ("StrDq", '"s"'), ("Bytes", "b'x'"), ("Raw", "r'\\d'"), ("RawBytes", "rb'\\x'"), ("BytesRaw", "Br'\\x'"), ("StrU", "u'x'"), ("StrConcat", "'a' 'b'"), ("StrConcatBytes", "b'a' b'b'"), ("Triple", "'''t\nu'''"), ("TripleDq", '"""t"""'),
    ("StrEscapes", "'\\n\\t\\x41\\u00e9\\N{EM DASH}\\\\'"), ("StrUnicode", "'\u00e9\u4e2d'"), ("StrEmpty", "''"), ("StrQuoteInside", "\"it's\""),
    ("FStr", "f'x{{E}}y'"), ("FStrOnly", "f'{{E}}'"), ("FStrConv", "f'{{E}!r}'"), ("FStrConvS", "f'{{E}!s}'"), ("FStrConvA", "f'{{E}!a}'"), ("FStrSpec", "f'{{E}:>10}'"), ("FStrNestedSpec", "f'{{E}:{{E2}}}'"), ("FStrNestedSpecMix", "f'{{E}:{{E2}}.{{E2}}f}'"),
    ("FStrEq", "f'{a=}'"), ("FStrEqFmt", "f'{a=:>5}'"), ("FStrEqSpaceFmt", "f'{a = :.2f}'"), ("FStrEqEmptyFmt", "f'{a=:}'"), ("FStrEqConvS", "f'{a=!s}'"), ("FStrEqNestedFmt", "f'{a=:{{E}}}'"), ("FStrEqSpec", "f'{a=!r:>5}'"), ("FStrNested", "f'{f\"{{E}}\"}'"), ("FStrRaw", "rf'\\d{{E}}'"), ("FStrTriple", "f'''{{E}}\nz'''"), ("FStrBraces", "f'{{{{E}}}}'"), ("FStrConcat", "'a' f'{{E}}' 'b'"),
    ("FStrNoExpr", "f'plain'"), ("FStrTwo", "f'{{E}}{{E2}}'"), ("FStrDictKey", "f'{d[\"k\"]}'"), ("FStrLambda", "f'{(lambda: 1)()}'"), ("FStrConvSpec", "f'{{E}!r:^{{E2}}}'"), ("FStrCapital", "F'{{E}}'"), ("FStrEmpty", "f''"), ("FStrDq", 'f"{{E}} {{E2}}"'),
    ("True", "True"), ("False", "False"), ("None", "None"), ("Ellipsis", "..."),
    *[("BinOp" + k, "{E} " + v + " {E2}") for k, v in BINOPS.items()],
    ("BinOpChain", "{E} + {E2} * a - b"), ("BinOpParenRight", "{E} - ({E2} - a)"), ("PowRightAssoc", "{E} ** {E2} ** a"), ("PowNeg", "{E} ** -{E2}"), ("NegPow", "-{E} ** {E2}"),
    ("USub", "-{E}"), ("UAdd", "+{E}"), ("Invert", "~{E}"), ("Not", "not {E}"), ("UnaryChain", "- -{E}"), ("NotNot", "not not {E}"),
    ("And", "{E} and {E2}"), ("Or", "{E} or {E2}"), ("And3", "{E} and {E2} and a"), ("AndOrMix", "{E} and {E2} or a and b"),
    *[("Cmp" + k, "{E} " + v + " {E2}") for k, v in CMPOPS.items()],
    ("CmpChain", "{E} < {E2} <= a"), ("CmpCompact", "{E}>={E2}"), ("CmpCompactLt", "{E}<{E2}"), ("CmpCompactEq", "{E}=={E2}"), ("CmpCompactNe", "{E}!={E2}"), ("CmpCompactGt", "1>2"), ("CmpCompactGe", "1>=1"), ("CmpNumGt", "a>1"), ("CmpNumShift", "a>>1"),
    ("IfExp", "{E} if {E2} else a"), ("IfExpNested", "{E} if a else {E2} if b else c"), ("Lambda", "lambda: {E}"), ("LambdaArgs", "lambda x, y=1, *z, k, **w: {E}"), ("LambdaPosOnly", "lambda x, /, y: {E}"), ("LambdaKwOnly", "lambda *, k=1: {E}"), ("LambdaStar", "lambda *a, **k: {E}"),
    ("Call", "f({E})"), ("CallNoArgs", "f()"), ("CallKw", "f({E}, k={E2})"), ("CallStar", "f(*{E}, **{E2})"), ("CallGen", "f({E} for x in {E2})"), ("CallTrailing", "f({E},)"), ("CallStarMid", "f(a, *{E}, b, k=1, **{E2})"), ("CallKwStarKw", "f(k=1, *{E})"), ("CallChained", "f({E})({E2})"),
    ("CallWalrus", "f(w := {E})"), ("Attr", "a.b"), ("AttrChain", "a.b.c"), ("AttrOfCall", "f({E}).b"), ("AttrOfParen", "({E}).b"), ("AttrOfNum", "1 .real"), ("AttrOfStr", "'s'.join({E})"), ("Subscript", "a[{E}]"), ("SubscriptOfParen", "({E})[{E2}]"),
    ("Slice", "a[{E}:{E2}]"), ("SliceStep", "a[{E}:{E2}:1]"), ("SliceEmpty", "a[:]"), ("SliceLower", "a[{E}:]"), ("SliceUpper", "a[:{E}]"), ("SliceStepOnly", "a[::{E}]"), ("SliceTuple", "a[{E}, {E2}:1]"), ("SubscriptTuple", "a[{E}, {E2}]"), ("SubscriptStar", "a[*{E}]"), ("SubscriptStarMix", "a[{E}, *{E2}]"),
    ("SubscriptTrailingComma", "a[{E},]"), ("SubscriptSliceCompact", "a[1:2, ::3]"),
    ("Tuple", "({E}, {E2})"), ("Tuple1", "({E},)"), ("Tuple0", "()"), ("TupleStar", "(*{E}, {E2})"), ("TupleTrailing", "({E}, {E2},)"), ("List", "[{E}, {E2}]"), ("List0", "[]"), ("ListStar", "[*{E}, {E2}]"), ("ListTrailing", "[{E},]"),
    ("Set", "{{E}, {E2}}"), ("Set1", "{{E}}"), ("SetStar", "{{E}, *{E2}}"), ("SetStarFirst", "{*{E}, {E2}}"), ("Dict", "{{E}: {E2}}"), ("Dict0", "{}"), ("Dict2", "{{E}: 1, {E2}: 2}"), ("DictStar", "{**{E}, 'k': {E2}}"), ("DictStarLast", "{'k': {E}, **{E2}}"), ("DictTrailing", "{{E}: {E2},}"),
    ("ListComp", "[{E} for x in {E2}]"), ("ListCompIf", "[{E} for x in {E2} if x]"), ("ListCompIf2", "[{E} for x in {E2} if x if a]"), ("ListCompIfIfFor", "[{E} for x in {E2} if x if a for y in x]"), ("ListCompIf3For2", "[{E} for x in {E2} if x if a if b for y in x if y for z in y]"), ("GenExpIfIfFor", "({E} for x in {E2} if x if a for y in x)"), ("DictCompIfIfFor", "{x: {E} for x in {E2} if x if a for y in x}"), ("ListComp2For", "[{E} for x in {E2} for y in x]"), ("ListCompTupleTarget", "[{E} for x, y in {E2}]"), ("ListCompStarTarget", "[{E} for x, *y in {E2}]"),
    ("ListCompParenTarget", "[{E} for (x, y) in {E2}]"), ("ListCompTernaryIter", "[{E} for x in (a if b else {E2})]"), ("ListCompLambdaCond", "[{E} for x in {E2} if (lambda: x)()]"), ("ListCompOrCond", "[{E} for x in {E2} if a or b]"),
    ("SetComp", "{{E} for x in {E2}}"), ("DictComp", "{x: {E} for x in {E2}}"), ("DictCompTuple", "{k: v for k, v in {E}}"), ("GenExp", "({E} for x in {E2})"), ("GenExpIf", "({E} for x in {E2} if x)"), ("CompNested", "[[{E} for x in a] for y in {E2}]"),
    ("CompAttrTarget", "[{E} for a.b in {E2}]"), ("CompSubTarget", "[{E} for a[0] in {E2}]"),
    ("Walrus", "(w := {E})"), ("WalrusInComp", "[w := {E}, {E2}]"), ("WalrusInIfExp", "(w := {E}) if a else b"), ("Paren", "({E})"), ("ParenNested", "((({E})))"),
    ("AttrKeywordLike", "a.match"), ("NameMatch", "match"), ("NameCase", "case"), ("NameType", "type"), ("NameUnderscore", "_"), ("NameUnicode", "\u00e9t\u00e9"), ("NameDunder", "__x__"), ("CallPrint", "print({E}, end='')"), ("CallExec", "exec({E})"),
    ("StarInCallOnly", "f(*{E})"), ("DoubleStarInCallOnly", "f(**{E})"), ("NotIn2", "{E} not in {E2} not in a"), ("IsNotNone", "{E} is not None"), ("InParenTuple", "{E} in ({E2}, a)"),
]
EXPR_DEF = [("Yield", "(yield {E})"), ("YieldBare", "(yield)"), ("YieldFrom", "(yield from {E})"), ("YieldTuple", "(yield {E}, {E2})")]
EXPR_ASYNC = [("Await", "await {E}"), ("AwaitCall", "await f({E})"), ("AsyncListComp", "[{E} async for x in {E2}]"), ("AsyncGenExp", "({E} async for x in {E2})"), ("AwaitInComp", "[await {E} for x in {E2}]")]

TARGET = [
    ("TName", "x"), ("TAttr", "a.b"), ("TAttrSelf", "self.x"), ("TSub", "a[0]"), ("TSlice", "a[1:2]"), ("TTuple", "x, y"), ("TTupleParen", "(x, y)"), ("TList", "[x, y]"), ("TStar", "x, *y"), ("TStarFirst", "*x, y"), ("TStarMid", "x, *y, z"),
    ("TStarOnlyList", "[*x]"), ("TStarOnlyTuple", "*x,"), ("TNested", "x, (y, z)"), ("TNestedStar", "x, (y, *z)"), ("TTrailing", "x,"), ("TParenName", "(x)"), ("TAttrChain", "a.b.c"), ("TSubAttr", "a[0].b"),
]

STMT = [
    ("ExprStmt", "{E}", ""), ("Assign", "{T} = {E}", ""), ("AssignMulti", "{T} = b = {E}", ""), ("AssignTupleValue", "{T} = {E}, {E2}", ""), ("AssignStarValue", "{T} = *{E}, {E2}", ""), ("AssignStarValueLast", "{T} = {E}, *{E2}", ""),
    ("AssignYield", "{T} = yield {E}", "def"), ("AssignAwait", "{T} = await {E}", "async"),
    *[("Aug" + k, "x " + v + "= {E}", "") for k, v in BINOPS.items()], ("AugAttr", "a.b += {E}", ""), ("AugSub", "a[0] += {E}", ""), ("AugTupleValue", "x += {E}, {E2}", ""), ("AugYield", "x += yield {E}", "def"),
    ("AnnAssign", "x: int = {E}", ""), ("AnnNoValue", "x: int", ""), ("AnnAttr", "self.x: int = {E}", ""), ("AnnSub", "a[0]: int = {E}", ""), ("AnnParen", "(x): int = {E}", ""), ("AnnComplex", "x: dict[str, list[int]] = {E}", ""), ("AnnStr", "x: 'T' = {E}", ""),
    ("AnnTupleValue", "x: tuple = {E}, {E2}", ""), ("AnnStarValue", "x: tuple = *{E}, {E2}", ""), ("AnnAttrNoValue", "self.x: int", ""),
    ("Return", "return {E}", "def"), ("ReturnBare", "return", "def"), ("ReturnTuple", "return {E}, {E2}", "def"), ("ReturnStar", "return *{E}, {E2}", "def"),
    ("Del", "del {T}", ""), ("DelMulti", "del x, a.b, a[0]", ""), ("DelParen", "del (x, y)", ""), ("DelList", "del [x, y]", ""), ("Pass", "pass", ""), ("Break", "break", "loop"), ("Continue", "continue", "loop"),
    ("Raise", "raise {E}", ""), ("RaiseFrom", "raise {E} from {E2}", ""), ("RaiseBare", "raise", ""), ("RaiseFromNone", "raise {E} from None", ""), ("Assert", "assert {E}", ""), ("AssertMsg", "assert {E}, {E2}", ""),
    ("Global", "global g1", "def"), ("GlobalMulti", "global g1, g2", "def"), ("Nonlocal", "nonlocal n1", "nested"),
    ("Import", "import m", ""), ("ImportAs", "import m as n", ""), ("ImportDotted", "import m.n.o", ""), ("ImportDottedAs", "import m.n as o", ""), ("ImportMulti", "import m, n.o as p", ""),
    ("ImportFrom", "from m import n", ""), ("ImportFromAs", "from m import n as o", ""), ("ImportFromMulti", "from m import n, o as p", ""), ("ImportFromParen", "from m import (n, o)", ""), ("ImportFromParenTrailing", "from m import (n, o,)", ""),
    ("ImportFromStar", "from m import *", ""), ("ImportFromRel1", "from . import n", ""), ("ImportFromRel2", "from .. import n", ""), ("ImportFromRelMod", "from .m import n", ""), ("ImportFromRel3Mod", "from ...m.n import o", ""), ("ImportFromEllipsisRel", "from .... import n", ""),
    ("ImportFromDotted", "from m.n import o", ""), ("ImportFromParenMultiline", "from m import (\n    n,\n    o,\n)", ""),
    ("Semicolon", "x = {E}; y = {E2}", ""), ("SemicolonTrailing", "x = {E};", ""), ("ExprStmtTuple", "{E}, {E2}", ""), ("ExprStmtStar", "*{E}, {E2}", ""), ("ExprStmtYield", "yield {E}", "def"), ("ExprStmtYieldFrom", "yield from {E}", "def"), ("ExprStmtAwait", "await {E}", "async"),
    ("TypeAlias", "type X = int", ""), ("TypeAliasParams", "type X[T] = list[T]", ""), ("TypeAliasBound", "type X[T: int, *Ts, **P] = tuple[T, *Ts]", ""), ("Docstring", "'''doc'''", ""),
]
COMPOUND = [
    ("If", "if {E}:\n{B}", ""), ("IfElse", "if {E}:\n{B}\nelse:\n{B}", ""), ("IfElif", "if {E}:\n{B}\nelif {E2}:\n{B}", ""), ("IfElifElse", "if {E}:\n{B}\nelif {E2}:\n{B}\nelse:\n{B}", ""), ("IfWalrus", "if (w := {E}):\n{B}", ""), ("IfInline", "if {E}: pass", ""),
    ("While", "while {E}:\n{B}", ""), ("WhileElse", "while {E}:\n{B}\nelse:\n{B}", ""), ("For", "for {T} in {E}:\n{B}", ""), ("ForElse", "for {T} in {E}:\n{B}\nelse:\n{B}", ""), ("ForTuple", "for x, y in {E}:\n{B}", ""), ("ForTupleTrailing", "for x, in {E}:\n{B}", ""),
    ("ForStarIter", "for x in *{E}, {E2}:\n{B}", ""), ("ForTupleIter", "for x in {E}, {E2}:\n{B}", ""), ("ForStarTarget", "for x, *y in {E}:\n{B}", ""), ("ForParenTarget", "for (x, y) in {E}:\n{B}", ""), ("ForListTarget", "for [x, y] in {E}:\n{B}", ""), ("AsyncFor", "async for {T} in {E}:\n{B}", "async"),
    ("With", "with {E}:\n{B}", ""), ("WithAs", "with {E} as {T}:\n{B}", ""), ("WithMulti", "with {E} as x, {E2} as y:\n{B}", ""), ("WithMultiNoAs", "with {E}, {E2}:\n{B}", ""), ("WithParen", "with ({E} as x, {E2} as y):\n{B}", ""), ("WithParenTrailing", "with ({E} as x, {E2} as y,):\n{B}", ""),
    ("WithParenNoAs", "with ({E}, {E2}):\n{B}", ""), ("WithParenSingle", "with ({E}):\n{B}", ""), ("WithParenSingleAs", "with ({E}) as x:\n{B}", ""), ("WithParenMultiline", "with (\n    {E} as x,\n    {E2} as y,\n):\n{B}", ""), ("WithAsTuple", "with {E} as (x, y):\n{B}", ""), ("WithAsAttr", "with {E} as a.b:\n{B}", ""),
    ("AsyncWith", "async with {E} as x:\n{B}", "async"),
    ("TryExcept", "try:\n{B}\nexcept {E}:\n{B}", ""), ("TryExceptAs", "try:\n{B}\nexcept {E} as e:\n{B}", ""), ("TryBare", "try:\n{B}\nexcept:\n{B}", ""), ("TryFinally", "try:\n{B}\nfinally:\n{B}", ""), ("TryElse", "try:\n{B}\nexcept {E}:\n{B}\nelse:\n{B}", ""),
    ("TryAll", "try:\n{B}\nexcept {E}:\n{B}\nexcept ({E2}, a) as e:\n{B}\nelse:\n{B}\nfinally:\n{B}", ""), ("TryStar", "try:\n{B}\nexcept* {E}:\n{B}", ""), ("TryStarAs", "try:\n{B}\nexcept* {E} as e:\n{B}", ""), ("TryExceptTuple", "try:\n{B}\nexcept ({E}, {E2}):\n{B}", ""), ("TryStarElse", "try:\n{B}\nexcept* {E}:\n{B}\nelse:\n{B}", ""), ("TryStarFinally", "try:\n{B}\nexcept* {E}:\n{B}\nfinally:\n{B}", ""),
    ("TryStarElseFinally", "try:\n{B}\nexcept* {E}:\n{B}\nelse:\n{B}\nfinally:\n{B}", ""), ("TryStarTwo", "try:\n{B}\nexcept* {E}:\n{B}\nexcept* ({E2}, a) as e:\n{B}\nelse:\n{B}\nfinally:\n{B}", ""), ("TryElseFinally", "try:\n{B}\nexcept {E}:\n{B}\nelse:\n{B}\nfinally:\n{B}", ""),
    ("Def", "def f():\n{B}", ""), ("DefArgs", "def f(a, b=1, *c, d, e=2, **k):\n{B}", ""), ("DefPosOnly", "def f(a, /, b):\n{B}", ""), ("DefPosOnlyDefault", "def f(a=1, /, b=2):\n{B}", ""), ("DefKwOnly", "def f(*, a):\n{B}", ""), ("DefKwOnlyDefault", "def f(*, a=1, b):\n{B}", ""),
    ("DefAnnot", "def f(a: int, b: str = 's') -> int:\n{B}", ""), ("DefAnnotStarArgs", "def f(a, *args: T, **kw: T):\n{B}", ""), ("DefAnnotStarUnpack", "def f(*args: *Ts):\n{B}", ""), ("DefReturnAnnot", "def f() -> list[int]:\n{B}", ""), ("DefDefaultExpr", "def f(a={E}, *, b={E2}):\n{B}", ""),
    ("DefDecorated", "@d\ndef f():\n{B}", ""), ("DefDecoratorCall", "@d.e(1, k=2)\ndef f():\n{B}", ""), ("DefDecoratorExpr", "@(d if a else e)\ndef f():\n{B}", ""), ("DefDecorators2", "@d\n@e\ndef f():\n{B}", ""), ("DefDecoratorSubscript", "@d[0]\ndef f():\n{B}", ""),
    ("AsyncDef", "async def f():\n{B}", ""), ("AsyncDefDecorated", "@d\nasync def f(a, *b):\n{B}", ""), ("DefDocstring", "def f():\n    '''doc'''\n{B}", ""), ("DefInline", "def f(): return 1", ""), ("DefTrailingComma", "def f(a, b,):\n{B}", ""), ("DefStarTrailingComma", "def f(*a, **k,):\n{B}", ""),
    ("DefTypeParams", "def f[T](x: T) -> T:\n{B}", ""), ("DefTypeParamsBound", "def f[T: int, *Ts, **P](x):\n{B}", ""), ("DefAllKinds", "def f(a, b=1, /, c=2, *d, e, f=3, **g):\n{B}", ""),
    ("Class", "class C:\n{B}", ""), ("ClassBases", "class C(B1, B2):\n{B}", ""), ("ClassMeta", "class C(B1, metaclass=M):\n{B}", ""), ("ClassEmptyParens", "class C():\n{B}", ""), ("ClassStarBases", "class C(*bs, **kw):\n{B}", ""), ("ClassDecorated", "@d\nclass C:\n{B}", ""),
    ("ClassTypeParams", "class C[T]:\n{B}", ""), ("ClassTypeParamsBases", "class C[T](B1):\n{B}", ""), ("ClassDocstring", "class C:\n    '''doc'''\n{B}", ""), ("ClassInline", "class C: pass", ""),
    ("Match", "match {E}:\n    case 1:\n{BB}", ""), ("MatchCapture", "match {E}:\n    case x:\n{BB}", ""), ("MatchWildcard", "match {E}:\n    case _:\n{BB}", ""), ("MatchSeq", "match {E}:\n    case [x, y]:\n{BB}", ""), ("MatchSeqStar", "match {E}:\n    case [x, *y]:\n{BB}", ""),
    ("MatchTuple", "match {E}:\n    case (x, y):\n{BB}", ""), ("MatchTupleNoParen", "match {E}:\n    case x, y:\n{BB}", ""), ("MatchMapping", "match {E}:\n    case {'k': v, **r}:\n{BB}", ""), ("MatchClass", "match {E}:\n    case C(x, k=y):\n{BB}", ""), ("MatchOr", "match {E}:\n    case 1 | 2:\n{BB}", ""),
    ("MatchAs", "match {E}:\n    case [x] as y:\n{BB}", ""), ("MatchGuard", "match {E}:\n    case x if x > {E2}:\n{BB}", ""), ("MatchValue", "match {E}:\n    case a.b:\n{BB}", ""), ("MatchSingleton", "match {E}:\n    case None:\n{BB}", ""), ("MatchStr", "match {E}:\n    case 's' | b'x':\n{BB}", ""),
    ("MatchNeg", "match {E}:\n    case -1 | 1+2j:\n{BB}", ""), ("MatchTupleSubject", "match {E}, {E2}:\n    case _:\n{BB}", ""), ("MatchTwoCases", "match {E}:\n    case 1:\n{BB}\n    case _:\n{BB}", ""), ("MatchStarWildcard", "match {E}:\n    case [*_]:\n{BB}", ""),
    ("MatchClassNoArgs", "match {E}:\n    case C():\n{BB}", ""), ("MatchClass3Kw", "match {E}:\n    case C(x=0, y=1, z=2):\n{BB}", ""), ("MatchClassPos2Kw", "match {E}:\n    case C(a, x=0, y=1):\n{BB}", ""), ("MatchClass4KwTrailing", "match {E}:\n    case C(p, q, k=1, l=2, m=x, n=_,):\n{BB}", ""), ("MatchMapping3", "match {E}:\n    case {'a': 1, 'b': x, 'c': [y, z], **r}:\n{BB}", ""), ("MatchSeq4", "match {E}:\n    case [a, b, *c, d]:\n{BB}", ""), ("MatchOr3", "match {E}:\n    case 1 | 2 | 3 | x:\n{BB}", ""), ("MatchNestedSeq", "match {E}:\n    case [x, [y, z]]:\n{BB}", ""), ("MatchMappingEmpty", "match {E}:\n    case {}:\n{BB}", ""), ("MatchAttrClass", "match {E}:\n    case a.C(x=1):\n{BB}", ""),
]

# layout variants applied to a rendered program (U3)
LAYOUTS = ["plain", "no_final_newline", "crlf", "tab_indent", "two_space_indent", "eight_space_indent", "trailing_comment", "leading_comment", "blank_lines", "trailing_spaces", "paren_continuation", "backslash_continuation", "form_feed", "semicolon_end", "col0_operator"]


def _conv(t):
    """Templates above are written with {E}-style slots and doubled literal braces; internally slots are
    «E» «E2» «T» «B» «BB» and braces are literal."""
    for slot in ("E2", "E", "T", "BB", "B"):
        t = t.replace("{" + slot + "}", "\u00ab" + slot + "\u00bb")
    return t


def all_prods():
    out = {}
    for n, t in EXPR:
        out[n] = ("expr", _conv(t), "")
    for n, t in EXPR_DEF:
        out[n] = ("expr", _conv(t), "def")
    for n, t in EXPR_ASYNC:
        out[n] = ("expr", _conv(t), "async")
    for n, t in TARGET:
        out[n] = ("target", _conv(t), "")
    for n, t, w in STMT:
        out[n] = ("stmt", _conv(t), w)
    for n, t, w in COMPOUND:
        out[n] = ("compound", _conv(t), w)
    return out
