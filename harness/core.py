"""Shared pipeline of the model-based checks:

  1. TLC model-checks the specification with Deviations = {} (the design satisfies the property);
  2. scenarios (TLC simulation behaviours + systematic/pinned ones) are executed on the real code;
  3. the recorded executions are validated against the trace specification by TLC -
     first with Deviations = {}, the rejected ones again with the open known findings enabled;
  4. verdict lines, evidence file, exit status.
"""

from __future__ import annotations

import json
import os
import sys
import time

from . import findings, pool, tlc

VERIF = tlc.VERIF


class Result:
    def __init__(self, pid, tier, seed):
        self.pid, self.tier, self.seed = pid, tier, seed
        self.t0 = time.time()
        self.violations = []  # (what, replay_payload)
        self.known = {}  # finding id -> count
        self.drift = []
        self.coverage = {}
        self.assumptions = []
        self.notes = []

    def violation(self, what, payload):
        self.violations.append((what, payload))

    def known_finding(self, fid, n=1):
        self.known[fid] = self.known.get(fid, 0) + n


NSTREAMS = 24


def streams(tier, seed, n=NSTREAMS):
    """The randomly generated part of every universe is N fixed streams (section 2.4 of DESIGN.md): the
    quick tier visits the stream VERIF_SEED selects, the thorough tier all of them - so whatever any
    seed can reach, the thorough tier reaches, and it has been triaged on the pinned tree."""
    import random

    ids = [seed % n] if tier == "quick" else list(range(n))
    return [random.Random(104729 * (i + 1)) for i in ids]


def tla_set(names):
    return "{" + ", ".join('"%s"' % n for n in sorted(names)) + "}"


def set_deviations(cfg_text, names):
    out = []
    for line in cfg_text.splitlines():
        if line.strip().startswith("Deviations"):
            out.append("  Deviations = " + tla_set(names))
        else:
            out.append(line)
    return "\n".join(out) + "\n"


def trace_cfg(mc_cfg_text, devs, spec="TSpec"):
    body = tlc.cfg_constants(set_deviations(mc_cfg_text, devs))
    lines = []
    for line in body.splitlines():
        if line.strip().startswith("SPECIFICATION"):
            lines.append("SPECIFICATION " + spec)
        else:
            lines.append(line)
    return "\n".join(lines) + "\nCONSTRAINT Report\nCHECK_DEADLOCK FALSE\n"


def validate_with_findings(res: Result, trace_module, traces, mc_cfg_text, *, describe, meta=None, timeout=1200, project=None):
    """Two-pass validation.  `describe(trace, matched)` renders the failing step for reports.
    Returns aggregate stats."""
    open_devs = findings.open_deviations(res.pid)
    full = traces
    if project is not None:
        # what TLC reads (the full records stay available for reports and replay files)
        traces = [project(t) for t in full]
    r1, agg = tlc.validate_traces(trace_module, traces, cfg_text=trace_cfg(mc_cfg_text, []), timeout=timeout)
    bad = [i for i, r in enumerate(r1) if not r["ok"]]
    stats = {"validated": len(traces), "accepted_conformant": len(traces) - len(bad), "tlc_states": agg["states"], "tlc_distinct": agg["distinct"]}
    if bad and open_devs:
        r2, agg2 = tlc.validate_traces(trace_module, [traces[i] for i in bad], cfg_text=trace_cfg(mc_cfg_text, open_devs), timeout=timeout)
        stats["tlc_states"] += agg2["states"]
        still = []
        for j, i in enumerate(bad):
            if r2[j]["ok"] and r2[j]["devs"]:
                for dname in r2[j]["devs"]:
                    res.known_finding(findings.by_deviation(res.pid, dname)["id"])
            else:
                still.append((i, r2[j]))
        bad_final = still
    else:
        bad_final = [(i, r1[i]) for i in bad]
    stats["accepted_with_known_deviation"] = len(bad) - len(bad_final)
    for i, r in bad_final:
        t = full[i]
        res.violation(describe(t, r["matched"]), {"trace": t, "matched_steps": r["matched"], "meta": (meta[i] if meta else None)})
    stats["rejected"] = len(bad_final)
    return stats


def write_evidence(res: Result, level, coverage, assumptions=()):
    os.makedirs(os.path.join(VERIF, "evidence"), exist_ok=True)
    ev = {
        "property_id": res.pid,
        "tier": res.tier,
        "seed": int(res.seed),
        "level": level,
        "coverage": coverage,
        "assumptions": list(assumptions),
        "wall_s": round(time.time() - res.t0, 2),
        "violations": len(res.violations),
        "known_findings": res.known,
        "notes": res.notes,
    }
    path = os.path.join(VERIF, "evidence", res.pid + ".json")
    with open(path, "w") as fh:
        json.dump(ev, fh, indent=1, sort_keys=True, default=str)
    return path


def finish(res: Result):
    """Print verdict lines and return the exit status."""
    for fid, n in sorted(res.known.items()):
        f = findings.by_id(fid)
        print(f"KNOWN-FINDING: property={res.pid} {fid}: {f['what']} (x{n})")
    rc = 0
    rdir = os.path.join(VERIF, "evidence", "replays")
    if os.path.isdir(rdir):
        # replay files of earlier runs of this check and tier are stale
        for f in os.listdir(rdir):
            if f.startswith(f"{res.pid}-{res.tier}-"):
                try:
                    os.remove(os.path.join(rdir, f))
                except OSError:
                    pass
    if res.violations:
        os.makedirs(rdir, exist_ok=True)
        shown = 0
        seen_what = set()
        for k, (what, payload) in enumerate(res.violations):
            key = what[:160]
            if key in seen_what and shown >= 5:
                continue
            seen_what.add(key)
            if shown >= 12:
                break
            path = os.path.join(rdir, f"{res.pid}-{res.tier}-{k}.json")
            with open(path, "w") as fh:
                json.dump({"property": res.pid, "what": what, "payload": payload}, fh, indent=1, default=str)
            print(f"VIOLATION property={res.pid} replay={path}")
            print(f"  {what}")
            shown += 1
        print(f"{len(res.violations)} violating scenario(s) for {res.pid}")
        rc = 1
    else:
        print(f"OK property={res.pid} tier={res.tier} wall={time.time() - res.t0:.1f}s")
    sys.stdout.flush()
    return rc
